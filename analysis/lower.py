"""Adaptor lowering: a normalisation of the extracted MIR that runs before any rule.

`opt.map(|x| ..)`, `opt.filter(pred)`, `opt.and_then(..)`, `opt.map_or(d, ..)`, `opt.is_some_and(..)`, `res.map(..)`, ... with a
closure argument are rewritten into what they mean - a switch on the discriminant, the closure's body inlined as blocks of the
calling function, and the result built explicitly - so that every rule sees `match opt { Some(x) => Some(f(x)), None => None }`
whichever way the source spells it.  The semantics used are those documented for core::option::Option / core::result::Result;
only calls whose function argument is a closure of this crate (its body is in the facts) are lowered, everything else is
left as a call.  The closure bodies stay in the facts as functions of their own as well (rules that enumerate closures still
find them).

The pass is deliberately small: it knows the data-flow of a dozen adaptors and nothing about this crate.
"""
import copy

from .mir import strip_generics

# adaptor -> (enum kind, how the payload is handed to the closure, what is built)
#   payload: "val" | "ref" | None (closure takes no argument);  on: which variant runs the closure
#   build:   description interpreted in _lower_call
OPT, RES = "core::option::Option", "core::result::Result"
ADAPTORS = {
    "core::option::Option::map":            dict(adt=OPT, on=1, pay="val", then="wrap-same", other="rebuild"),
    "core::option::Option::and_then":       dict(adt=OPT, on=1, pay="val", then="result", other="rebuild"),
    "core::option::Option::filter":         dict(adt=OPT, on=1, pay="ref", then="keep-if", other="rebuild"),
    "core::option::Option::is_some_and":    dict(adt=OPT, on=1, pay="val", then="result", other=("bool", 0)),
    "core::option::Option::is_none_or":     dict(adt=OPT, on=1, pay="val", then="result", other=("bool", 1)),
    "core::option::Option::map_or":         dict(adt=OPT, on=1, pay="val", then="result", other="default-arg", fidx=2),
    "core::option::Option::unwrap_or_else": dict(adt=OPT, on=0, pay=None, then="result", other="payload"),
    "core::option::Option::or_else":        dict(adt=OPT, on=0, pay=None, then="result", other="same"),
    "core::option::Option::ok_or_else":     dict(adt=OPT, on=0, pay=None, then=("wrap", RES, 1, "Err"), other=("wrap-payload", RES, 0, "Ok")),
    "core::option::Option::inspect":        dict(adt=OPT, on=1, pay="ref", then="same", other="same"),
    "core::result::Result::map":            dict(adt=RES, on=0, pay="val", then=("wrap", RES, 0, "Ok"), other=("wrap-payload", RES, 1, "Err")),
    "core::result::Result::and_then":       dict(adt=RES, on=0, pay="val", then="result", other=("wrap-payload", RES, 1, "Err")),
    "core::result::Result::is_ok_and":      dict(adt=RES, on=0, pay="val", then="result", other=("bool", 0)),
    "core::result::Result::is_err_and":     dict(adt=RES, on=1, pay="val", then="result", other=("bool", 0)),
    "core::result::Result::unwrap_or_else": dict(adt=RES, on=1, pay="val", then="result", other="payload"),
}
VARIANTS = {OPT: ["None", "Some"], RES: ["Ok", "Err"]}


def _place(l, proj=()):
    return {"l": l, "proj": [list(e) for e in proj]}


def _assign(p, rv, sp):
    return {"k": "Assign", "p": p, "rv": rv, "sp": sp}


def _use(p, mode="copy"):
    return {"k": "Use", "op": {"k": mode, "p": p}}


def _goto(t, sp):
    return {"k": "Goto", "target": t, "sp": sp}


def _remap(x, lbase, bbase, pbase):
    """shift locals, block numbers and promoted indices of a copied closure body (in place)"""
    if isinstance(x, dict):
        if isinstance(x.get("l"), int) and ("proj" in x or x.get("k") in ("StorageLive", "StorageDead")):
            x["l"] += lbase
        if "proj" in x and isinstance(x["proj"], list):
            for e in x["proj"]:
                if e and e[0] == "index":
                    e[1] += lbase
        if x.get("k") == "const" and isinstance(x.get("promoted"), int):
            x["promoted"] += pbase
        k = x.get("k")
        if k in ("Goto", "Call", "Assert", "Drop"):
            if isinstance(x.get("target"), int):
                x["target"] += bbase
            if isinstance(x.get("unwind"), int):
                x["unwind"] += bbase
        if k == "SwitchInt":
            x["targets"] = [[v, b + bbase] for v, b in x["targets"]]
            x["otherwise"] += bbase
        for key, v in x.items():
            if key in ("targets", "sp", "fn_sp"):
                continue
            _remap(v, lbase, bbase, pbase)
    elif isinstance(x, list):
        for v in x:
            _remap(v, lbase, bbase, pbase)


def _closure_of(body, op, closures):
    """the closure body an operand denotes: a local of closure type"""
    if not isinstance(op, dict) or op.get("k") not in ("move", "copy") or op["p"]["proj"]:
        return None, None
    l = op["p"]["l"]
    tag = body["locals"][l].get("tag") or ""
    if not tag.startswith("closure:"):
        # a generic parameter `f: F` of an inlined helper that was handed a closure of the caller
        return _closure_behind(body, l, closures)
    return closures.get(strip_generics(tag[len("closure:"):])), l


_INLINED = set()


def _inline(body, clo, clo_local, args, cont, sp):
    """append clo's blocks to body; -> (entry block, local holding the closure's result)"""
    _INLINED.add(strip_generics(clo["path"]))
    lbase = len(body["locals"])
    body["locals"].extend(copy.deepcopy(clo["locals"]))
    pbase = len(body.setdefault("promoted", []))
    body["promoted"].extend(copy.deepcopy(clo.get("promoted", [])))
    entry = len(body["blocks"])
    stmts = []
    selfty = clo["locals"][1]["ty"]
    if selfty.startswith("&"):
        stmts.append(_assign(_place(lbase + 1), {"k": "Ref", "mut": selfty.startswith("&mut"), "p": _place(clo_local)}, sp))
    else:
        stmts.append(_assign(_place(lbase + 1), _use(_place(clo_local)), sp))
    for i, (mode, pl) in enumerate(args):
        if mode == "ref":
            stmts.append(_assign(_place(lbase + 2 + i), {"k": "Ref", "mut": False, "p": pl}, sp))
        else:
            stmts.append(_assign(_place(lbase + 2 + i), _use(pl), sp))
    body["blocks"].append({"stmts": stmts, "term": _goto(entry + 1, sp), "cleanup": False})
    for blk in clo["blocks"]:
        nb = copy.deepcopy(blk)
        _remap(nb, lbase, entry + 1, pbase)
        if nb["term"]["k"] == "Return":
            nb["term"] = _goto(cont, nb["term"].get("sp", sp))
        body["blocks"].append(nb)
    return entry, lbase


def _adt_agg(adt, variant, ops):
    return {"k": "Aggregate", "agg": "Adt", "adt": adt, "variant": variant, "variant_name": VARIANTS[adt][variant], "fields": ["0"] if ops else [], "ops": ops}


def _lower_call(body, bi, closures):
    blk = body["blocks"][bi]
    t = blk["term"]
    if t["k"] != "Call" or not t.get("callee") or t.get("target") is None or t["dest"]["proj"]:
        return False
    spec = ADAPTORS.get(strip_generics(t["callee"]))
    if spec is None:
        return False
    fidx = spec.get("fidx", 1)
    if len(t["args"]) <= fidx:
        return False
    clo, clo_local = _closure_of(body, t["args"][fidx], closures)
    recv = t["args"][0]
    if clo is None or recv.get("k") not in ("move", "copy") or recv["p"]["proj"]:
        return False
    want_args = 0 if spec["pay"] is None else 1
    if clo["arg_count"] != 1 + want_args:
        return False
    sp, dest, cont = t["sp"], t["dest"], t["target"]
    adt, on = spec["adt"], spec["on"]
    off = 1 - on
    rl = recv["p"]["l"]
    payload = lambda v: _place(rl, [["downcast", v, VARIANTS[adt][v]], ["field", 0, "0"]])
    has_payload = lambda v: not (adt == OPT and v == 0)
    # discriminant local
    dl = len(body["locals"])
    body["locals"].append({"ty": "isize", "tag": "isize", "name": None})
    # continuation of the closure: builds the result
    after = len(body["blocks"])
    body["blocks"].append({"stmts": [], "term": _goto(cont, sp), "cleanup": False})
    args = [] if spec["pay"] is None else [(spec["pay"], payload(on))]
    entry, lbase = _inline(body, clo, clo_local, args, after, sp)
    res = _place(lbase)
    then = spec["then"]
    st = body["blocks"][after]["stmts"]
    if then == "result":
        st.append(_assign(dest, _use(res, "move"), sp))
    elif then == "wrap-same":
        st.append(_assign(dest, _adt_agg(adt, on, [{"k": "move", "p": res}]), sp))
    elif isinstance(then, tuple) and then[0] == "wrap":
        st.append(_assign(dest, _adt_agg(then[1], then[2], [{"k": "move", "p": res}]), sp))
    elif then == "same":
        st.append(_assign(dest, _use(_place(rl), "move"), sp))
    elif then == "keep-if":
        yes, no = len(body["blocks"]), len(body["blocks"]) + 1
        body["blocks"].append({"stmts": [_assign(dest, _adt_agg(adt, on, [{"k": "copy", "p": payload(on)}]), sp)], "term": _goto(cont, sp), "cleanup": False})
        body["blocks"].append({"stmts": [_assign(dest, _adt_agg(adt, 0, []), sp)], "term": _goto(cont, sp), "cleanup": False})
        body["blocks"][after]["term"] = {"k": "SwitchInt", "discr": {"k": "move", "p": res}, "discr_ty": "bool", "targets": [[0, no]], "otherwise": yes, "sp": sp}
    else:
        return False
    # the other variant
    other = spec["other"]
    ob = len(body["blocks"])
    ost = []
    if other == "rebuild":
        ost.append(_assign(dest, _adt_agg(adt, off, [{"k": "move", "p": payload(off)}] if has_payload(off) else []), sp))
    elif other == "same":
        ost.append(_assign(dest, _use(_place(rl), "move"), sp))
    elif other == "payload":
        ost.append(_assign(dest, _use(payload(off), "move"), sp))
    elif other == "default-arg":
        ost.append(_assign(dest, {"k": "Use", "op": copy.deepcopy(t["args"][1])}, sp))
    elif isinstance(other, tuple) and other[0] == "bool":
        ost.append(_assign(dest, {"k": "Use", "op": {"k": "const", "ty": "bool", "tag": "bool", "val": other[1]}}, sp))
    elif isinstance(other, tuple) and other[0] == "wrap-payload":
        ost.append(_assign(dest, _adt_agg(other[1], other[2], [{"k": "move", "p": payload(off)}]), sp))
    else:
        return False
    body["blocks"].append({"stmts": ost, "term": _goto(cont, sp), "cleanup": False})
    ndefs = sum(1 for b_ in body["blocks"] for s_ in b_["stmts"] if s_["k"] == "Assign" and s_["p"] is dest)
    body.setdefault("lowered_calls", {})[dest["l"]] = {"block": bi, "term": t, "ndefs": ndefs}
    blk["stmts"].append(_assign(_place(dl), {"k": "Discriminant", "p": _place(rl), "adt": adt, "variants": VARIANTS[adt]}, sp))
    blk["term"] = {"k": "SwitchInt", "discr": {"k": "move", "p": _place(dl)}, "discr_ty": "isize", "targets": [[on, entry]], "otherwise": ob, "sp": sp,
                   "lowered": strip_generics(t["callee"])}
    return True


def _known():
    from .mir import _known_functions
    return _known_functions()


def _inline_call(body, bi, callee, args, mark):
    """replace the call terminating block bi by the callee's blocks (arguments assigned to its parameter locals, its return
    value to the destination); `args`: list of operands"""
    blk = body["blocks"][bi]
    t = blk["term"]
    sp, dest, cont = t["sp"], t["dest"], t["target"]
    lbase = len(body["locals"])
    body["locals"].extend(copy.deepcopy(callee["locals"]))
    pbase = len(body.setdefault("promoted", []))
    body["promoted"].extend(copy.deepcopy(callee.get("promoted", [])))
    after = len(body["blocks"])
    body["blocks"].append({"stmts": [_assign(dest, _use(_place(lbase), "move"), sp)], "term": _goto(cont, sp), "cleanup": False, "inl": mark})
    entry = len(body["blocks"])
    stmts = [_assign(_place(lbase + 1 + i), {"k": "Use", "op": copy.deepcopy(a)}, sp) for i, a in enumerate(args)]
    body["blocks"].append({"stmts": stmts, "term": _goto(entry + 1, sp), "cleanup": False, "inl": mark})
    for cb in callee["blocks"]:
        nb = copy.deepcopy(cb)
        _remap(nb, lbase, entry + 1, pbase)
        if nb["term"]["k"] == "Return":
            nb["term"] = _goto(after, nb["term"].get("sp", sp))
        nb["inl"] = mark
        nb["inl_ret"] = lbase
        body["blocks"].append(nb)
    blk["term"] = {"k": "Goto", "target": entry, "sp": sp, "inlined": mark}


def _closure_behind(body, l, closures, depth=0):
    """the closure body a local denotes, through copies / references of it (a generic parameter `f: F` of an inlined helper
    that was given a closure of the caller)"""
    if depth > 6:
        return None, None
    tag = body["locals"][l].get("tag") or ""
    if tag.startswith("closure:"):
        c = closures.get(strip_generics(tag[len("closure:"):]))
        return (c, l) if c is not None else (None, None)
    defs = [s for b in body["blocks"] for s in b["stmts"] if s["k"] == "Assign" and s["p"]["l"] == l and not s["p"]["proj"]]
    if len(defs) != 1:
        return None, None
    rv = defs[0]["rv"]
    if rv["k"] == "Use" and rv["op"].get("k") in ("move", "copy") and not rv["op"]["p"]["proj"]:
        return _closure_behind(body, rv["op"]["p"]["l"], closures, depth + 1)
    if rv["k"] == "Ref" and (not rv["p"]["proj"] or rv["p"]["proj"] == [["deref"]]):
        return _closure_behind(body, rv["p"]["l"], closures, depth + 1)
    return None, None


def inline_helpers(raw):
    """Crate functions the rules have no name for (not in spec/known_functions.json: helpers a later refactoring extracted)
    are inlined into their callers, and so are calls - inside such inlined code - of closures the caller handed in.  The rules
    then see the statements where they used to be.  Private helpers all of whose calls were inlined are dropped from the facts
    (they have no independent existence); recursion and depth are bounded."""
    known = _known()
    by_path = {}
    for b in raw["bodies"]:
        if b["kind"] != "Closure":
            by_path.setdefault(strip_generics(b["path"]), b)
    closures = {strip_generics(b["path"]): b for b in raw["bodies"] if b["kind"] == "Closure"}
    unknown = {p for p, b in by_path.items() if p not in known and not p.startswith("<") and "::test" not in p}
    import json as _json, os as _os
    direct_ok = set(_json.load(open(_os.path.join(_os.path.dirname(_os.path.dirname(_os.path.abspath(__file__))), "spec", "known_functions.json"))).get("direct_closure_callers", []))
    n = 0
    remaining = set()
    for _pass in range(4):
        changed = False
        for body in raw["bodies"]:
            me = strip_generics(body["path"])
            for bi in range(len(body["blocks"])):
                t = body["blocks"][bi]["term"]
                if t["k"] != "Call" or t.get("target") is None or t["dest"]["proj"]:
                    continue
                callee = strip_generics(t.get("resolved") or t.get("callee") or "")
                if callee in unknown and callee != me and len(body["blocks"]) < 4000:
                    cb = by_path[callee]
                    if len(t["args"]) == cb["arg_count"] and not cb.get("_has_unknown_pending"):
                        _inline_call(body, bi, cb, t["args"], callee)
                        n += 1
                        changed = True
                        continue
                # a closure invoked directly: inside inlined code (`predicate(b)` in an extracted polling loop), or a local
                # closure of a function that had none when the rules were written (`let end_of_fats = || ..; end_of_fats()`)
                if (body["blocks"][bi].get("inl") or me.split("::{closure")[0] not in direct_ok) and strip_generics(t.get("callee") or "") in ("core::ops::Fn::call", "core::ops::FnMut::call_mut", "core::ops::FnOnce::call_once") and len(t["args"]) == 2:
                    a0, a1 = t["args"]
                    if a0.get("k") in ("move", "copy") and not a0["p"]["proj"] and (a1.get("k") == "const" or a1.get("k") in ("move", "copy") and not a1["p"]["proj"]):
                        clo, cl = _closure_behind(body, a0["p"]["l"], closures)
                        if clo is not None and callee in closures and closures[callee] is not clo:
                            clo = None
                        if a1.get("k") == "const" or body["locals"][a1["p"]["l"]]["ty"] == "()":
                            tup = [{"rv": {"ops": []}}] if (a1.get("ty") == "()" or a1.get("k") != "const") else []
                        else:
                            tup = [s for b_ in body["blocks"] for s in b_["stmts"] if s["k"] == "Assign" and s["p"]["l"] == a1["p"]["l"] and not s["p"]["proj"]]
                            tup = tup if len(tup) == 1 and tup[0]["rv"]["k"] == "Aggregate" and tup[0]["rv"]["agg"] == "Tuple" else []
                        if clo is not None and len(tup) == 1 and clo["arg_count"] == 1 + len(tup[0]["rv"]["ops"]):
                            selfty = clo["locals"][1]["ty"]
                            blk = body["blocks"][bi]
                            if selfty.startswith("&"):
                                tmp = len(body["locals"])
                                body["locals"].append({"ty": selfty, "tag": "ref", "name": None})
                                blk["stmts"].append(_assign(_place(tmp), {"k": "Ref", "mut": selfty.startswith("&mut"), "p": _place(cl)}, t["sp"]))
                                first = {"k": "move", "p": _place(tmp)}
                            else:
                                first = {"k": "copy", "p": _place(cl)}
                            _inline_call(body, bi, clo, [first] + list(tup[0]["rv"]["ops"]), "closure")
                            _INLINED.add(strip_generics(clo["path"]))
                            n += 1
                            changed = True
        if not changed:
            break
    # drop private helpers that are no longer called from anywhere
    still = set()
    for body in raw["bodies"]:
        for blk in body["blocks"]:
            t = blk["term"]
            if t["k"] == "Call":
                still.add(strip_generics(t.get("resolved") or t.get("callee") or ""))
    dropped = [p for p in unknown if p not in still and not by_path[p].get("pub")]
    if dropped:
        raw["bodies"] = [b for b in raw["bodies"] if strip_generics(b["path"]) not in dropped]
        for b in raw["bodies"]:
            # the dropped helpers' own closures: their creation sites were copied into the callers, so they stay reachable by
            # path (term-level inlining, capture lookups) but are not functions of their own any more
            if any(strip_generics(b["path"]).startswith(d + "::{closure") for d in dropped):
                b["consumed"] = True
    raw["_inlined_helpers"] = {"sites": n, "dropped": sorted(dropped)}
    return n


def _lower_plain(body, bi):
    """adaptors without a function argument whose data flow is a two-way choice: Option::unwrap_or(opt, d), Result::unwrap_or,
    Option::ok_or(opt, e)"""
    blk = body["blocks"][bi]
    t = blk["term"]
    if t["k"] != "Call" or not t.get("callee") or t.get("target") is None or t["dest"]["proj"] or len(t["args"]) != 2:
        return False
    nm = strip_generics(t["callee"])
    if nm not in ("core::option::Option::unwrap_or", "core::result::Result::unwrap_or", "core::option::Option::ok_or"):
        return False
    recv = t["args"][0]
    if recv.get("k") not in ("move", "copy") or recv["p"]["proj"]:
        return False
    sp, dest, cont = t["sp"], t["dest"], t["target"]
    adt = OPT if "option" in nm else RES
    on = 1 if adt == OPT else 0
    rl = recv["p"]["l"]
    dl = len(body["locals"])
    body["locals"].append({"ty": "isize", "tag": "isize", "name": None})
    pay = _place(rl, [["downcast", on, VARIANTS[adt][on]], ["field", 0, "0"]])
    yes, no = len(body["blocks"]), len(body["blocks"]) + 1
    if nm.endswith("ok_or"):
        ys = _assign(dest, _adt_agg(RES, 0, [{"k": "move", "p": pay}]), sp)
        ns = _assign(dest, _adt_agg(RES, 1, [copy.deepcopy(t["args"][1])]), sp)
    else:
        ys = _assign(dest, _use(pay, "move"), sp)
        ns = _assign(dest, {"k": "Use", "op": copy.deepcopy(t["args"][1])}, sp)
    body["blocks"].append({"stmts": [ys], "term": _goto(cont, sp), "cleanup": False})
    body["blocks"].append({"stmts": [ns], "term": _goto(cont, sp), "cleanup": False})
    if nm.endswith("ok_or"):
        # (ok_or keeps its term-level alias: formula rules read `checked_x(..).ok_or(e)?` as the arithmetic result; unwrap_or has
        # no term-level reader - its destination is a local with two definitions, like the `match` it stands for)
        body.setdefault("lowered_calls", {})[dest["l"]] = {"block": bi, "term": t, "ndefs": 2}
    blk["stmts"].append(_assign(_place(dl), {"k": "Discriminant", "p": _place(rl), "adt": adt, "variants": VARIANTS[adt]}, sp))
    blk["term"] = {"k": "SwitchInt", "discr": {"k": "move", "p": _place(dl)}, "discr_ty": "isize", "targets": [[on, yes]], "otherwise": no, "sp": sp, "lowered": nm}
    return True


def _lower_bool_then(body, bi, closures):
    """`cond.then(|| v)` / `cond.then_some(v)`: Some(v) when cond else None"""
    blk = body["blocks"][bi]
    t = blk["term"]
    if t["k"] != "Call" or not t.get("callee") or t.get("target") is None or t["dest"]["proj"] or len(t["args"]) != 2:
        return False
    nm = strip_generics(t["callee"])
    if not (nm.startswith("core::bool::") and nm.split("::")[-1] in ("then", "then_some")):
        return False
    recv = t["args"][0]
    if recv.get("k") not in ("move", "copy") or recv["p"]["proj"]:
        return False
    sp, dest, cont = t["sp"], t["dest"], t["target"]
    no = len(body["blocks"])
    body["blocks"].append({"stmts": [_assign(dest, _adt_agg(OPT, 0, []), sp)], "term": _goto(cont, sp), "cleanup": False})
    if nm.endswith("then_some"):
        yes = len(body["blocks"])
        body["blocks"].append({"stmts": [_assign(dest, _adt_agg(OPT, 1, [copy.deepcopy(t["args"][1])]), sp)], "term": _goto(cont, sp), "cleanup": False})
    else:
        clo, clo_local = _closure_of(body, t["args"][1], closures)
        if clo is None or clo["arg_count"] != 1:
            body["blocks"].pop()
            return False
        after = len(body["blocks"])
        body["blocks"].append({"stmts": [], "term": _goto(cont, sp), "cleanup": False})
        yes, lbase = _inline(body, clo, clo_local, [], after, sp)
        body["blocks"][after]["stmts"].append(_assign(dest, _adt_agg(OPT, 1, [{"k": "move", "p": _place(lbase)}]), sp))
    # (no term-level alias: nothing reads `then(..)` as a term - the destination is a local with a None and a Some definition)
    blk["term"] = {"k": "SwitchInt", "discr": copy.deepcopy(recv), "discr_ty": "bool", "targets": [[0, no]], "otherwise": yes, "sp": sp, "lowered": nm}
    return True


def _lower_try_for_each(body, bi, closures):
    """`it.try_for_each(|x| ..)` / `it.for_each(|x| ..)` -> the loop they are: next(); None => done with the neutral result;
    Some(x) => the closure's blocks inlined; a breaking result (Err / None / Break) is the call's result, else round again"""
    blk = body["blocks"][bi]
    t = blk["term"]
    if t["k"] != "Call" or not t.get("callee") or t.get("target") is None or t["dest"]["proj"]:
        return False
    nm = strip_generics(t["callee"])
    if nm not in ("core::iter::Iterator::try_for_each", "core::iter::Iterator::for_each") or len(t["args"]) != 2:
        return False
    clo, clo_local = _closure_of(body, t["args"][1], closures)
    recv = t["args"][0]
    if clo is None or clo["arg_count"] != 2 or recv.get("k") not in ("move", "copy") or recv["p"]["proj"]:
        return False
    sp, dest, cont = t["sp"], t["dest"], t["target"]
    full = t.get("callee_full") or ""
    if not (full.startswith("<") and " as core::iter::Iterator>" in full):
        return False
    ity = full[1:full.index(" as core::iter::Iterator>")]
    rl = recv["p"]["l"]
    by_value = not body["locals"][rl]["ty"].startswith("&")
    dty = body["locals"][dest["l"]]["ty"]
    is_try = nm.endswith("try_for_each")
    if is_try:
        if dty.startswith("core::result::Result"):
            radt, cont_variant = RES, 0
        elif dty.startswith("core::option::Option"):
            radt, cont_variant = OPT, 1
        else:
            return False
    # locals
    L = body["locals"]
    item_ty = clo["locals"][2]["ty"]
    opt_l = len(L)
    L.append({"ty": "core::option::Option<%s>" % item_ty, "tag": "adt:core::option::Option", "name": None})
    d_l = len(L)
    L.append({"ty": "isize", "tag": "isize", "name": None})
    ref_l = rl
    pre = []
    if by_value:
        ref_l = len(L)
        L.append({"ty": "&mut " + ity, "tag": "ref", "name": None})
        pre.append(_assign(_place(ref_l), {"k": "Ref", "mut": True, "p": _place(rl)}, sp))
    B = body["blocks"]
    head = len(B)
    B.append(None)      # head: next()
    test = len(B)
    B.append(None)      # switch on the Option
    done = len(B)
    B.append(None)
    after = len(B)
    B.append(None)      # after the closure
    entry, lbase = _inline(body, clo, clo_local, [("val", _place(opt_l, [["downcast", 1, "Some"], ["field", 0, "0"]]))], after, sp)
    res = _place(lbase)
    B[head] = {"stmts": [], "cleanup": False, "term": {
        "k": "Call", "callee": "core::iter::Iterator::next", "callee_full": "<%s as core::iter::Iterator>::next" % ity, "callee_crate": "core", "callee_local": False,
        "targs": [ity], "resolved": "<%s as core::iter::Iterator>::next" % ity, "resolved_kind": "item", "trait_unresolved": False, "trait": "core::iter::Iterator",
        "args": [{"k": "copy", "p": _place(ref_l)}], "dest": _place(opt_l), "target": test, "unwind": None, "sp": sp, "fn_sp": t.get("fn_sp", sp), "snip": t.get("snip", "")}}
    B[test] = {"stmts": [_assign(_place(d_l), {"k": "Discriminant", "p": _place(opt_l), "adt": OPT, "variants": VARIANTS[OPT]}, sp)], "cleanup": False,
               "term": {"k": "SwitchInt", "discr": {"k": "move", "p": _place(d_l)}, "discr_ty": "isize", "targets": [[1, entry]], "otherwise": done, "sp": sp, "lowered": nm}}
    unit = {"k": "const", "ty": "()", "tag": "unit", "zst": True}
    if is_try:
        B[done] = {"stmts": [_assign(dest, _adt_agg(radt, cont_variant, [unit]), sp)], "term": _goto(cont, sp), "cleanup": False}
        d2 = len(L)
        L.append({"ty": "isize", "tag": "isize", "name": None})
        brk = len(B)
        B.append({"stmts": [_assign(dest, _use(res, "move"), sp)], "term": _goto(cont, sp), "cleanup": False})
        B[after] = {"stmts": [_assign(_place(d2), {"k": "Discriminant", "p": res, "adt": radt, "variants": VARIANTS[radt]}, sp)], "cleanup": False,
                    "term": {"k": "SwitchInt", "discr": {"k": "move", "p": _place(d2)}, "discr_ty": "isize", "targets": [[cont_variant, head]], "otherwise": brk, "sp": sp}}
    else:
        B[done] = {"stmts": [_assign(dest, {"k": "Use", "op": unit}, sp)], "term": _goto(cont, sp), "cleanup": False}
        B[after] = {"stmts": [], "term": _goto(head, sp), "cleanup": False}
    blk["stmts"].extend(pre)
    blk["term"] = _goto(head, sp)
    return True


# ---------------------------------------------------------------------------------------------------------------------
# jump threading: the constant a helper returns decides the caller's test of it

_CF = "core::ops::ControlFlow"


def _ev_place(env, p):
    v = env.get(p["l"])
    for e in p["proj"]:
        if v is None:
            return None
        if e[0] == "downcast":
            if not (isinstance(v, tuple) and v[0] == "agg" and v[2] == e[1]):
                return None
        elif e[0] == "field":
            if not (isinstance(v, tuple) and v[0] == "agg" and e[1] < len(v[3])):
                return None
            v = v[3][e[1]]
        else:
            return None
    return v


def _ev_operand(env, op):
    if op.get("k") == "const":
        if "val" in op and isinstance(op["val"], int):
            return ("c", op["val"])
        if op.get("zst") and op.get("ty") == "()":
            return ("c", 0)
        return None
    if op.get("k") in ("move", "copy"):
        return _ev_place(env, op["p"])
    return None


def _ev_rvalue(env, rv):
    k = rv["k"]
    if k == "Use":
        return _ev_operand(env, rv["op"])
    if k == "Aggregate" and rv["agg"] in ("Adt", "Tuple"):
        return ("agg", rv.get("adt"), rv.get("variant") or 0, [_ev_operand(env, o) for o in rv["ops"]])
    if k == "Discriminant":
        v = _ev_place(env, rv["p"])
        if isinstance(v, tuple) and v[0] == "agg" and (v[1] or "").split("::")[-1] in ("Option", "Result", "ControlFlow"):
            return ("c", v[2])
        return None
    if k == "UnaryOp" and rv["op"] == "Not":
        v = _ev_operand(env, rv["x"])
        return ("c", 1 - v[1]) if isinstance(v, tuple) and v[0] == "c" and v[1] in (0, 1) else None
    if k == "BinaryOp" and rv["op"] in ("Eq", "Ne"):
        a, b = _ev_operand(env, rv["l"]), _ev_operand(env, rv["r"])
        if isinstance(a, tuple) and isinstance(b, tuple) and a[0] == "c" and b[0] == "c":
            return ("c", int((a[1] == b[1]) == (rv["op"] == "Eq")))
    return None


def _thread_from(body, seed, env, budget=14):
    """follow the control flow out of block `seed` while the values in env decide it.  Phase 1 simulates (read-only) and
    finds the last test the constant decides; phase 2 gives the blocks up to there private copies (flagged `threaded`: they
    are control flow only - their statements are the originals' and are not counted twice)."""
    B = body["blocks"]
    path = []           # (block, kind, next) along the simulated walk
    cur = seed
    env = dict(env)
    last_decided = -1
    first = True
    while budget > 0:
        budget -= 1
        blk = B[cur]
        if not first:
            for s_ in blk["stmts"]:
                if s_["k"] == "Assign":
                    v = _ev_rvalue(env, s_["rv"])
                    if s_["p"]["proj"] or v is None:
                        env.pop(s_["p"]["l"], None)
                    else:
                        env[s_["p"]["l"]] = v
                elif s_["k"] == "StorageDead":
                    env.pop(s_["l"], None)
        first = False
        t = blk["term"]
        if t["k"] == "Goto":
            nxt, kind = t["target"], "goto"
        elif t["k"] == "SwitchInt":
            d = _ev_operand(env, t["discr"])
            if not (isinstance(d, tuple) and d[0] == "c"):
                break
            hit = [tb for v, tb in t["targets"] if v == d[1]]
            nxt, kind = (hit[0] if hit else t["otherwise"]), "sw"
            last_decided = len(path)
        elif t["k"] == "Call" and t.get("target") is not None and strip_generics(t.get("callee") or "").endswith("ops::Try::branch") and not t["dest"]["proj"] and len(t["args"]) == 1:
            x = _ev_operand(env, t["args"][0])
            if not (isinstance(x, tuple) and x[0] == "agg" and (x[1] or "").split("::")[-1] in ("Result", "Option")):
                break
            is_res = x[1].endswith("Result")
            good = x[2] == (0 if is_res else 1)
            env[t["dest"]["l"]] = ("agg", _CF, 0, [x[3][0] if x[3] else None]) if good else ("agg", _CF, 1, [x])
            nxt, kind = t["target"], "call"
        elif t["k"] == "Call" and t.get("target") is not None and strip_generics(t.get("callee") or "").endswith("ops::FromResidual::from_residual") and not t["dest"]["proj"]:
            # `?` leaving the inlined helper: its result is the failure variant, whatever the payload
            dty = body["locals"][t["dest"]["l"]]["ty"]
            if dty.startswith("core::result::Result"):
                env[t["dest"]["l"]] = ("agg", RES, 1, [None])
            elif dty.startswith("core::option::Option"):
                env[t["dest"]["l"]] = ("agg", OPT, 0, [])
            else:
                break
            nxt, kind = t["target"], "call"
        else:
            break
        if B[nxt].get("cleanup") or any(p_[0] == nxt for p_ in path) or nxt == seed:
            break
        path.append((cur, kind, nxt))
        cur = nxt
    if last_decided < 0:
        return 0
    # phase 2: private copies of path[0..last_decided]'s successors
    made = 0
    prev = seed
    for k in range(last_decided + 1):
        blk_i, kind, nxt = path[k]
        t = B[prev]["term"]
        last = k == last_decided
        if last:
            # the decided test itself: the copy `prev` jumps straight to the chosen successor (the original block)
            B[prev]["term"] = {"k": "Goto", "target": nxt, "sp": t["sp"], "decided": True}
            break
        nb = copy.deepcopy(B[nxt])
        nb["threaded"] = True
        nb["orig"] = B[nxt].get("orig", nxt)
        ni = len(B)
        B.append(nb)
        made += 1
        if kind == "sw":
            B[prev]["term"] = {"k": "Goto", "target": ni, "sp": t["sp"], "decided": True}
        else:
            B[prev]["term"] = dict(t, target=ni)
        prev = ni
    return made


def thread_helper_results(raw):
    """In functions that had a helper inlined: from every site that gives the helper's result a constant (Ok(false),
    Some(..), true ..), follow the caller's control flow on private block copies as long as that constant decides it -
    `if !more { return }` after `let more = helper(..)?` is then a fact of the path, as it was before the extraction."""
    n = 0
    for body in raw["bodies"]:
        B = body["blocks"]
        seeds = []
        for bi, blk in enumerate(B):
            r = blk.get("inl_ret")
            tt = blk["term"]
            if r is not None and tt["k"] == "Call" and tt.get("target") is not None and strip_generics(tt.get("callee") or "").endswith("ops::FromResidual::from_residual") and tt["dest"] == {"l": r, "proj": []}:
                seeds.append((bi, {}))
                continue
            if (r is None and not blk.get("inl") and not blk.get("low")) or blk["term"]["k"] != "Goto":
                continue
            env = {}
            for s_ in blk["stmts"]:
                if s_["k"] == "Assign" and not s_["p"]["proj"]:
                    v = _ev_rvalue(env, s_["rv"])
                    if v is not None:
                        env[s_["p"]["l"]] = v
                    else:
                        env.pop(s_["p"]["l"], None)
            if r in env and isinstance(env[r], tuple):
                seeds.append((bi, env))
            elif r is None and any(isinstance(v, tuple) and v[0] == "agg" for v in env.values()):
                # a variant built inside the inlined code (`cond.then(f).ok_or(e)`: the None decides the ok_or)
                seeds.append((bi, env))
        for bi, env in seeds:
            if len(B) < 6000:
                n += _thread_from(body, bi, env)
    raw["_threaded_blocks"] = n
    return n


def _split_tuple_types(ty):
    """component types of a tuple type string `(A, B<C, D>, E)` (top-level commas only)"""
    if not (ty.startswith("(") and ty.endswith(")")):
        return None
    inner, out, depth, cur = ty[1:-1], [], 0, ""
    for ch in inner:
        if ch in "<([":
            depth += 1
        elif ch in ">)]":
            depth -= 1
        if ch == "," and depth == 0:
            out.append(cur.strip())
            cur = ""
        else:
            cur += ch
    if cur.strip():
        out.append(cur.strip())
    return out


def split_tuple_locals(raw):
    """Scalar replacement of tuple temporaries: a local that is only ever assigned whole tuples `(a, b)` and only ever read
    field by field (`let (x, y) = if c { (a, b) } else { (d, e) }`) becomes one local per field - the shape the same code has
    when each variable is chosen by its own `if`."""
    n = 0
    for body in raw["bodies"]:
        L = body["locals"]
        cand = {}
        for i, l in enumerate(L):
            if i > body["arg_count"] and l["ty"].startswith("(") and l["ty"] != "()":
                comps = _split_tuple_types(l["ty"])
                if comps and len(comps) >= 2:
                    cand[i] = comps
        if not cand:
            continue
        ndefs = {i: 0 for i in cand}
        bad = set()

        def visit_place(p, is_def_whole=False):
            l = p["l"]
            if l in cand and not is_def_whole:
                if not (p["proj"] and p["proj"][0][0] == "field"):
                    bad.add(l)
            for e in p["proj"]:
                if e[0] == "index" and e[1] in cand:
                    bad.add(e[1])

        def visit(x):
            if isinstance(x, dict):
                if "proj" in x and isinstance(x.get("l"), int):
                    visit_place(x)
                    return
                if x.get("k") in ("StorageLive", "StorageDead"):
                    return
                for k_, v in x.items():
                    if k_ in ("sp", "fn_sp"):
                        continue
                    visit(v)
            elif isinstance(x, list):
                for v in x:
                    visit(v)
        for blk in body["blocks"]:
            for s_ in blk["stmts"]:
                if s_["k"] == "Assign" and s_["p"]["l"] in cand and not s_["p"]["proj"]:
                    rv = s_["rv"]
                    if rv["k"] == "Aggregate" and rv["agg"] == "Tuple" and len(rv["ops"]) == len(cand[s_["p"]["l"]]):
                        ndefs[s_["p"]["l"]] += 1
                        visit(rv)
                        continue
                    bad.add(s_["p"]["l"])
                    visit(rv)
                    continue
                visit(s_)
            t = blk["term"]
            if t["k"] == "Call" and t["dest"]["l"] in cand and not t["dest"]["proj"]:
                bad.add(t["dest"]["l"])
            visit({k_: v for k_, v in t.items() if k_ != "dest"})
            if t["k"] == "Call":
                visit_place(t["dest"], is_def_whole=not t["dest"]["proj"])
        todo = [i for i in cand if i not in bad and ndefs[i] >= 2]
        if not todo:
            continue
        fmap = {}
        for i in todo:
            fmap[i] = []
            for k_, cty in enumerate(cand[i]):
                fmap[i].append(len(L))
                L.append({"ty": cty, "tag": cty, "name": (L[i].get("name") or None)})

        def rewrite(x):
            if isinstance(x, dict):
                if "proj" in x and isinstance(x.get("l"), int) and x["l"] in fmap and x["proj"] and x["proj"][0][0] == "field":
                    x["l"] = fmap[x["l"]][x["proj"][0][1]]
                    x["proj"] = x["proj"][1:]
                for k_, v in x.items():
                    if k_ not in ("sp", "fn_sp"):
                        rewrite(v)
            elif isinstance(x, list):
                for v in x:
                    rewrite(v)
        for blk in body["blocks"]:
            new_stmts = []
            for s_ in blk["stmts"]:
                if s_["k"] == "Assign" and s_["p"]["l"] in fmap and not s_["p"]["proj"]:
                    for k_, op in enumerate(s_["rv"]["ops"]):
                        new_stmts.append(_assign(_place(fmap[s_["p"]["l"]][k_]), {"k": "Use", "op": op}, s_["sp"]))
                    continue
                if s_["k"] in ("StorageLive", "StorageDead") and s_["l"] in fmap:
                    continue
                new_stmts.append(s_)
            blk["stmts"] = new_stmts
            rewrite(blk["stmts"])
            rewrite(blk["term"])
        n += len(todo)
    raw["_split_tuples"] = n
    return n


# ---------------------------------------------------------------------------------------------------------------------
# unrolling of loops over a handful of statically known items (`for (off, v) in [(488, a), (492, b)]`, `for i in 0..3`)

def _single_assign(body, l):
    ds = [(bi, s_) for bi, b_ in enumerate(body["blocks"]) for s_ in b_["stmts"] if s_["k"] == "Assign" and s_["p"]["l"] == l and not s_["p"]["proj"]]
    cs = [(bi, b_["term"]) for bi, b_ in enumerate(body["blocks"]) if b_["term"]["k"] == "Call" and b_["term"]["dest"]["l"] == l and not b_["term"]["dest"]["proj"]]
    return ds, cs


def _array_len(ty):
    import re as _re
    m = _re.match(r"^\[(.+); (\d+)(?:_usize)?\]$", ty.strip())
    return int(m.group(2)) if m else None


def _iter_items(body, l, depth=0):
    """what the iterator held in local l yields, as a list of ('op', operand) | ('ref', place) | ('tuple', [items]) - or None"""
    if depth > 6:
        return None
    ds, cs = _single_assign(body, l)
    if len(ds) + len(cs) != 1:
        return None
    L = body["locals"]
    if cs:
        t = cs[0][1]
        nm = strip_generics(t.get("callee") or "")
        a = t["args"]
        if nm.endswith(("IntoIterator::into_iter",)) and len(a) == 1 and a[0].get("k") in ("move", "copy") and not a[0]["p"]["proj"]:
            src = a[0]["p"]["l"]
            n = _array_len(L[src]["ty"])
            if n is not None:
                for _k in range(4):
                    sd, sc = _single_assign(body, src)
                    if len(sd) != 1 or sc:
                        return None
                    rv_ = sd[0][1]["rv"]
                    if rv_["k"] == "Aggregate" and rv_["agg"] == "Array" and len(rv_["ops"]) == n:
                        return [("op", dict(o, k="copy") if o.get("k") == "move" else o) for o in rv_["ops"]]
                    if rv_["k"] == "Use" and rv_["op"].get("k") in ("move", "copy") and not rv_["op"]["p"]["proj"]:
                        src = rv_["op"]["p"]["l"]           # a copy of the array
                        continue
                    return None
                return None
            return _iter_items(body, src, depth + 1)
        if nm.split("::")[-1] in ("iter", "iter_mut") and "slice" in nm and len(a) == 1 and a[0].get("k") in ("move", "copy") and not a[0]["p"]["proj"]:
            # the slice is a whole array behind a reference (through the unsizing cast)
            r = a[0]["p"]["l"]
            for _k in range(4):
                rd, rc = _single_assign(body, r)
                if len(rd) != 1 or rc:
                    return None
                rv = rd[0][1]["rv"]
                if rv["k"] == "Cast" and rv["op"].get("k") in ("move", "copy") and not rv["op"]["p"]["proj"]:
                    r = rv["op"]["p"]["l"]
                    continue
                if rv["k"] == "Use" and rv["op"].get("k") in ("move", "copy") and not rv["op"]["p"]["proj"]:
                    r = rv["op"]["p"]["l"]
                    continue
                if rv["k"] == "Ref" and not rv["p"]["proj"]:
                    n = _array_len(L[rv["p"]["l"]]["ty"])
                    if n is None:
                        return None
                    return [("ref", {"l": rv["p"]["l"], "proj": [["cidx", k, k + 1, False]]}, bool(rv.get("mut"))) for k in range(n)]
                return None
            return None
        if nm.endswith("Iterator::enumerate") and len(a) == 1 and a[0].get("k") in ("move", "copy") and not a[0]["p"]["proj"]:
            inner = _iter_items(body, a[0]["p"]["l"], depth + 1)
            if inner is None:
                return None
            return [("tuple", [("op", {"k": "const", "ty": "usize", "tag": "usize", "val": k}), it]) for k, it in enumerate(inner)]
        return None
    rv = ds[0][1]["rv"]
    if rv["k"] == "Use" and rv["op"].get("k") in ("move", "copy") and not rv["op"]["p"]["proj"]:
        return _iter_items(body, rv["op"]["p"]["l"], depth + 1)
    if rv["k"] == "Aggregate" and rv.get("agg") == "Adt" and (rv.get("adt") or "").endswith(("ops::Range", "ops::range::Range")) and len(rv["ops"]) == 2:
        lo, hi = rv["ops"]
        if lo.get("k") == "const" and hi.get("k") == "const" and isinstance(lo.get("val"), int) and isinstance(hi.get("val"), int):
            return [("op", dict(lo, val=v)) for v in range(lo["val"], hi["val"])]
    return None


def _mentions(x, acc):
    if isinstance(x, dict):
        if isinstance(x.get("l"), int) and ("proj" in x or x.get("k") in ("StorageLive", "StorageDead")):
            acc.add(x["l"])
        if "proj" in x and isinstance(x["proj"], list):
            for e in x["proj"]:
                if e and e[0] == "index":
                    acc.add(e[1])
        for k_, v in x.items():
            if k_ not in ("sp", "fn_sp"):
                _mentions(v, acc)
    elif isinstance(x, list):
        for v in x:
            _mentions(v, acc)


def _succs(t):
    k = t["k"]
    if k == "Goto":
        return [t["target"]]
    if k == "SwitchInt":
        return [b for _v, b in t["targets"]] + [t["otherwise"]]
    if k in ("Call", "Assert", "Drop"):
        return [t["target"]] if t.get("target") is not None else []
    return []


def unroll_small_loops(raw, max_items=8):
    """`for x in <2..8 statically known items> { body }` becomes body; body; ..: the items are the elements of an array
    built on the spot, of an array iterated by reference (optionally enumerated), or of a constant integer range.  Locals
    that live inside one iteration get a copy per iteration, so each copy reads like the straight-line code it stands for."""
    total = 0
    for body in raw["bodies"]:
        B = body["blocks"]
        done = True
        for hi in range(len(B)):
            t = B[hi]["term"]
            if t["k"] != "Call" or not strip_generics(t.get("callee") or "").endswith("Iterator::next") or t.get("target") is None or t["dest"]["proj"]:
                continue
            if B[hi].get("cleanup") or B[hi].get("unrolled") or len(t["args"]) != 1:
                continue
            ti = t["target"]
            T = B[ti]
            if T["term"]["k"] != "SwitchInt":
                continue
            dst = t["dest"]["l"]
            disc = [s_ for s_ in T["stmts"] if s_["k"] == "Assign" and s_["rv"]["k"] == "Discriminant" and s_["rv"]["p"]["l"] == dst and not s_["rv"]["p"]["proj"]]
            if len(disc) != 1:
                continue
            tt = T["term"]
            tmap = dict((v, b_) for v, b_ in tt["targets"])
            some_t = tmap.get(1, tt["otherwise"])
            none_t = tmap.get(0, tt["otherwise"])
            if some_t == none_t:
                continue
            # the iterator local behind the &mut handed to next()
            a0 = t["args"][0]
            if a0.get("k") not in ("move", "copy") or a0["p"]["proj"]:
                continue
            itl = None
            cur_ = a0["p"]["l"]
            for _k in range(4):
                rd, rc = _single_assign(body, cur_)
                if not rd or rc or not all(x[1]["rv"]["k"] == "Ref" and x[1]["rv"]["p"]["proj"] in ([], [["deref"]]) for x in rd) or len({(x[1]["rv"]["p"]["l"], len(x[1]["rv"]["p"]["proj"])) for x in rd}) != 1:
                    break
                base_ = rd[0][1]["rv"]["p"]["l"]
                if rd[0][1]["rv"]["p"]["proj"] or body["locals"][base_]["ty"].startswith("&"):
                    cur_ = base_                    # a re-borrow `&mut *r` / a reference to a reference: keep looking
                    continue
                itl = base_
                break
            if itl is None:
                continue
            items = _iter_items(body, itl)
            if items is None or not (2 <= len(items) <= max_items):
                continue
            # loop body: blocks reachable from the Some target that can get back to the header
            fwd, work = set(), [some_t]
            while work:
                x = work.pop()
                if x in fwd or x == hi:
                    continue
                fwd.add(x)
                work += _succs(B[x]["term"])
            back = {hi}
            changed = True
            while changed:
                changed = False
                for x in fwd:
                    if x not in back and any(s_ in back for s_ in _succs(B[x]["term"])):
                        back.add(x)
                        changed = True
            Lp = (fwd & back) | {hi, ti}
            if any(B[x].get("cleanup") for x in Lp) or len(Lp) * (len(items) + 1) > 600:
                continue
            # the iterator must not be touched inside the loop other than by this next()
            m_it = set()
            for x in Lp:
                acc = set()
                _mentions(B[x]["stmts"], acc)
                if x != hi:
                    _mentions(B[x]["term"], acc)
                m_it |= acc
            if itl in m_it - set():
                # allowed: the `&mut it` temp definitions in the header
                others = [x for x in Lp if x != hi and itl in (lambda a_: (_mentions(B[x], a_), a_)[1])(set())]
                if others:
                    continue
            # iteration-local locals: every mention inside the loop
            inside, outside = set(), set()
            for bi_, b_ in enumerate(B):
                acc = set()
                # (StorageLive / StorageDead markers outside the loop do not make a temporary loop-carried)
                _mentions([s_ for s_ in b_["stmts"] if s_["k"] not in ("StorageLive", "StorageDead")], acc)
                _mentions(b_["term"], acc)
                (inside if bi_ in Lp else outside).update(acc)
            local_only = {l_ for l_ in inside - outside if l_ > body["arg_count"]}
            # build the copies
            order = sorted(Lp)
            entries = []
            for k in range(len(items) + 1):
                bmap = {x: len(B) + i_ for i_, x in enumerate(order)}
                lmap = {}
                for l_ in sorted(local_only):
                    lmap[l_] = len(body["locals"])
                    body["locals"].append(copy.deepcopy(body["locals"][l_]))
                newblocks = []
                for x in order:
                    nb = copy.deepcopy(B[x])
                    nb["unrolled"] = True
                    _remap_sel(nb, lmap, bmap, hi)
                    newblocks.append(nb)
                B.extend(newblocks)
                entries.append((bmap, lmap))
            sp = t["sp"]
            for k, (bmap, lmap) in enumerate(entries):
                H = B[bmap[hi]]
                Tk = B[bmap[ti]]
                d_l = lmap.get(dst, dst)
                if k < len(items):
                    st = []
                    val = _emit_item(body, items[k], st, sp)
                    st.append(_assign(_place(d_l), _adt_agg(OPT, 1, [val]), sp))
                    H["stmts"] = H["stmts"] + st
                    H["term"] = _goto(bmap[ti], sp)
                    Tk["term"] = _goto(bmap.get(some_t, some_t), sp)
                    # back edges of this copy lead to the next copy's header
                    nxt_h = entries[k + 1][0][hi]
                    for x in order:
                        _retarget(B[bmap[x]]["term"], "HDR", nxt_h)
                else:
                    H["stmts"] = H["stmts"] + [_assign(_place(d_l), _adt_agg(OPT, 0, []), sp)]
                    H["term"] = _goto(bmap[ti], sp)
                    Tk["term"] = _goto(none_t, sp)
            # entries into the loop go to the first copy
            first = entries[0][0][hi]
            for bi_, b_ in enumerate(B):
                if bi_ in Lp or b_.get("unrolled"):
                    continue
                _retarget_exact(b_["term"], hi, first)
            B[hi]["unrolled"] = True
            total += 1
    raw["_unrolled_loops"] = total
    return total


def _emit_item(body, it, st, sp):
    """statements computing one item into a fresh local; -> operand"""
    if it[0] == "op":
        return copy.deepcopy(it[1])
    L = body["locals"]
    if it[0] == "ref":
        l = len(L)
        L.append({"ty": "&elem", "tag": "ref", "name": None})
        st.append(_assign(_place(l), {"k": "Ref", "mut": bool(it[2]) if len(it) > 2 else False, "p": copy.deepcopy(it[1])}, sp))
        return {"k": "move", "p": _place(l)}
    if it[0] == "tuple":
        ops = [_emit_item(body, x, st, sp) for x in it[1]]
        l = len(L)
        L.append({"ty": "(tuple)", "tag": "tuple", "name": None})
        st.append(_assign(_place(l), {"k": "Aggregate", "agg": "Tuple", "ops": ops}, sp))
        return {"k": "move", "p": _place(l)}
    raise ValueError(it)


def _remap_sel(x, lmap, bmap, hdr):
    """in a copied block: rename iteration-local locals, redirect intra-loop edges to this copy (edges to the header are
    marked for the caller)"""
    if isinstance(x, dict):
        if isinstance(x.get("l"), int) and ("proj" in x or x.get("k") in ("StorageLive", "StorageDead")) and x["l"] in lmap:
            x["l"] = lmap[x["l"]]
        if "proj" in x and isinstance(x["proj"], list):
            for e in x["proj"]:
                if e and e[0] == "index" and e[1] in lmap:
                    e[1] = lmap[e[1]]
        k = x.get("k")
        if k in ("Goto", "Call", "Assert", "Drop"):
            if isinstance(x.get("target"), int):
                x["target"] = "HDR" if x["target"] == hdr else bmap.get(x["target"], x["target"])
        if k == "SwitchInt":
            x["targets"] = [[v, ("HDR" if b_ == hdr else bmap.get(b_, b_))] for v, b_ in x["targets"]]
            x["otherwise"] = "HDR" if x["otherwise"] == hdr else bmap.get(x["otherwise"], x["otherwise"])
        for key_, v in x.items():
            if key_ in ("targets", "sp", "fn_sp"):
                continue
            _remap_sel(v, lmap, bmap, hdr)
    elif isinstance(x, list):
        for v in x:
            _remap_sel(v, lmap, bmap, hdr)


def _retarget(t, frm, to):
    if t.get("target") == frm:
        t["target"] = to
    if t["k"] == "SwitchInt":
        t["targets"] = [[v, (to if b_ == frm else b_)] for v, b_ in t["targets"]]
        if t["otherwise"] == frm:
            t["otherwise"] = to


def _retarget_exact(t, frm, to):
    _retarget(t, frm, to)


# ---------------------------------------------------------------------------------------------------------------------
# one spelling for fixed-width integer I/O on byte slices: std's to_le_bytes / from_le_bytes idioms read as byteorder calls

def _bo_call(endian, name, args, t):
    full = "<byteorder::%s as byteorder::ByteOrder>::%s" % (endian, name)
    return dict(t, callee="byteorder::ByteOrder::" + name, callee_full=full, callee_crate="byteorder", callee_local=False, targs=["byteorder::" + endian],
                resolved=full, resolved_kind="item", trait_unresolved=False, trait="byteorder::ByteOrder", args=args, canonicalised=True)


def _follow_to_local(body, l, kinds, depth=0):
    """through single-definition copies / references / unsizing casts to the local they denote"""
    for _k in range(8):
        ds, cs = _single_assign(body, l)
        if len(ds) != 1 or cs:
            return l
        rv = ds[0][1]["rv"]
        if rv["k"] == "Cast" and rv["op"].get("k") in ("move", "copy") and not rv["op"]["p"]["proj"]:
            l = rv["op"]["p"]["l"]
        elif rv["k"] == "Use" and rv["op"].get("k") in ("move", "copy") and not rv["op"]["p"]["proj"]:
            l = rv["op"]["p"]["l"]
        elif rv["k"] == "Ref" and rv["p"]["proj"] in ([], [["deref"]]):
            l = rv["p"]["l"]
        else:
            return l
    return l


def canonical_byteorder(raw):
    """`dst.copy_from_slice(&v.to_le_bytes())` is LittleEndian::write_uN(dst, v); `uN::from_le_bytes([s[0], .., s[N-1]])` and
    `uN::from_le_bytes(s.try_into().unwrap())` are LittleEndian::read_uN(s) (same for _be_).  The rules are written against
    the byteorder spelling the crate uses; a port to the std methods changes no byte."""
    n = 0
    W = {"u16": 2, "u32": 4, "u64": 8}
    import json as _json, os as _os
    users = set(_json.load(open(_os.path.join(_os.path.dirname(_os.path.dirname(_os.path.abspath(__file__))), "spec", "known_functions.json"))).get("byteorder_users", []))
    for body in raw["bodies"]:
        # only where the tree the rules were written against uses byteorder (the FSInfo code there uses the std spelling, and
        # its rules read that)
        if strip_generics(body["path"]).split("::{closure")[0] not in users:
            continue
        B = body["blocks"]
        for bi, blk in enumerate(B):
            t = blk["term"]
            if t["k"] != "Call" or not t.get("callee"):
                continue
            nm = strip_generics(t["callee"])
            if nm.endswith("copy_from_slice") and len(t["args"]) == 2 and t["args"][1].get("k") in ("move", "copy") and not t["args"][1]["p"]["proj"]:
                a = _follow_to_local(body, t["args"][1]["p"]["l"], None)
                ds, cs = _single_assign(body, a)
                if not ds and len(cs) == 1:
                    ct = cs[0][1]
                    cn = strip_generics(ct.get("callee") or "")
                    for suf, endian in (("to_le_bytes", "LittleEndian"), ("to_be_bytes", "BigEndian")):
                        if cn.endswith("::" + suf) and "num" in cn and len(ct["args"]) == 1:
                            ty = [k for k in W if "impl %s>" % k in (ct.get("callee_full") or ct["callee"])]
                            if ty and ct["args"][0].get("k") in ("move", "copy", "const"):
                                v = copy.deepcopy(ct["args"][0])
                                if v.get("k") == "move":
                                    v["k"] = "copy"
                                blk["term"] = _bo_call(endian, "write_" + ty[0], [t["args"][0], v], t)
                                n += 1
            elif nm.endswith(("::from_le_bytes", "::from_be_bytes")) and "num" in nm and len(t["args"]) == 1 and t["args"][0].get("k") in ("move", "copy") and not t["args"][0]["p"]["proj"]:
                endian = "LittleEndian" if nm.endswith("from_le_bytes") else "BigEndian"
                ty = [k for k in W if "impl %s>" % k in (t.get("callee_full") or t["callee"])]
                if not ty:
                    continue
                arr = t["args"][0]["p"]["l"]
                ds, cs = _single_assign(body, arr)
                for _k in range(4):         # through plain copies of the byte array
                    if len(ds) == 1 and not cs and ds[0][1]["rv"]["k"] == "Use" and ds[0][1]["rv"]["op"].get("k") in ("move", "copy") and not ds[0][1]["rv"]["op"]["p"]["proj"]:
                        arr = ds[0][1]["rv"]["op"]["p"]["l"]
                        ds, cs = _single_assign(body, arr)
                    else:
                        break
                src = None
                if len(ds) == 1 and not cs and ds[0][1]["rv"]["k"] == "Aggregate" and ds[0][1]["rv"]["agg"] == "Array" and len(ds[0][1]["rv"]["ops"]) == W[ty[0]]:
                    bases = []
                    for k_, o in enumerate(ds[0][1]["rv"]["ops"]):
                        if o.get("k") not in ("move", "copy") or o["p"]["proj"]:
                            bases = None
                            break
                        es, ec = _single_assign(body, o["p"]["l"])
                        if len(es) != 1 or ec or es[0][1]["rv"]["k"] != "Use" or es[0][1]["rv"]["op"].get("k") not in ("move", "copy"):
                            bases = None
                            break
                        pl = es[0][1]["rv"]["op"]["p"]
                        pj = pl["proj"]
                        if len(pj) == 2 and pj[0] == ["deref"] and pj[1][0] == "index":
                            ids, ic = _single_assign(body, pj[1][1])
                            okc = len(ids) == 1 and not ic and ids[0][1]["rv"]["k"] == "Use" and ids[0][1]["rv"]["op"].get("k") == "const" and ids[0][1]["rv"]["op"].get("val") == k_
                        elif len(pj) == 2 and pj[0] == ["deref"] and pj[1][0] == "cidx" and pj[1][1] == k_ and not pj[1][3]:
                            okc = True
                        else:
                            okc = False
                        if not okc:
                            bases = None
                            break
                        bases.append(pl["l"])
                    if bases and len(set(bases)) == 1:
                        src = {"k": "copy", "p": _place(bases[0])}
                elif not ds and len(cs) == 1 and strip_generics(cs[0][1].get("callee") or "").split("::")[-1] in ("unwrap", "expect") and cs[0][1]["args"] and cs[0][1]["args"][0].get("k") in ("move", "copy"):
                    r = cs[0][1]["args"][0]["p"]["l"]
                    rd, rc = _single_assign(body, r)
                    if not rd and len(rc) == 1 and strip_generics(rc[0][1].get("callee") or "").split("::")[-1] in ("try_into", "try_from") and rc[0][1]["args"] and rc[0][1]["args"][0].get("k") in ("move", "copy"):
                        src = copy.deepcopy(rc[0][1]["args"][0])
                        src["k"] = "copy"
                if src is not None:
                    blk["term"] = _bo_call(endian, "read_" + ty[0], [src], t)
                    n += 1
    raw["_byteorder_canon"] = n
    return n


def _clo_key(ty):
    if "{closure@" not in ty:
        return None
    k = ty[ty.index("{closure@"):]
    return k[:k.index("}") + 1]


def _mark_consumed(raw):
    """a closure is consumed when it was inlined somewhere and no value of its type (or reference to one) is still passed
    to a call: its statements are in the caller(s) now"""
    used_inline = raw.get("_inlined_closures", set())
    if not used_inline:
        return
    still = set()
    for body in raw["bodies"]:
        for blk in body["blocks"]:
            t = blk["term"]
            if t["k"] != "Call":
                continue
            for a in t["args"]:
                if a.get("k") in ("move", "copy"):
                    k = _clo_key(body["locals"][a["p"]["l"]]["ty"])
                    if k:
                        still.add(k)
    for b in raw["bodies"]:
        if b["kind"] == "Closure" and strip_generics(b["path"]) in used_inline and _clo_key(b["locals"][1]["ty"]) not in still:
            b["consumed"] = True


def canonical_free_fn_paths(raw):
    """A free function the rules know by path (parse_volume, solve_mode_variant, crc7, crc16) that was moved to another module
    keeps its known path in the facts: when the known path is absent and exactly one free function of that name exists
    elsewhere in the crate, its path is rewritten everywhere (definition, callers, its closures).  Methods need nothing: their
    path is their type's."""
    import json as _json
    known = [p for p in _known() if not p.startswith("<") and "{" not in p and not any(seg[:1].isupper() for seg in p.split("::")[:-1])]
    present = {strip_generics(b["path"]): b for b in raw["bodies"] if b["kind"] == "Fn"}
    moved = {}
    for kp in known:
        if kp in present or "::test" in kp:
            continue
        name = kp.split("::")[-1]
        cands = [p for p in present if p.split("::")[-1] == name and p not in known and "::test" not in p]
        if len(cands) == 1 and present[cands[0]]["path"] == cands[0]:
            moved[cands[0]] = kp
    if not moved:
        return {}
    txt = _json.dumps(raw["bodies"])
    for new_, old_ in moved.items():
        txt = txt.replace(new_, old_)
    raw["bodies"] = _json.loads(txt)
    raw["_moved_functions"] = moved
    return moved


_COMMUTATIVE = ("Add", "Mul", "BitAnd", "BitOr", "BitXor")


def canonical_operands(raw):
    """Two spellings of the same thing get one form: (i) a commutative operation with its constant operand on the left
    (`2 * n`, `0x0FFF_FFFF & e`) has it on the right; (ii) a two-way switch on `!c` (`if !c { A } else { B }`) is the switch on c
    with the targets exchanged."""
    n = 0
    for body in raw["bodies"]:
        nots = {}
        ndefs = {}
        for blk in body["blocks"]:
            for s in blk["stmts"]:
                if s["k"] == "Assign" and not s["p"]["proj"]:
                    ndefs[s["p"]["l"]] = ndefs.get(s["p"]["l"], 0) + 1
            t = blk["term"]
            if t["k"] == "Call" and not t["dest"]["proj"]:
                ndefs[t["dest"]["l"]] = ndefs.get(t["dest"]["l"], 0) + 1
        sdef = {}
        for blk in body["blocks"]:
            for s in blk["stmts"]:
                if s["k"] == "Assign" and not s["p"]["proj"] and ndefs.get(s["p"]["l"]) == 1:
                    sdef[s["p"]["l"]] = s["rv"]

        def base_of(op, depth=0):
            """the named (or oldest) local an operand is a plain copy of; None when it is computed"""
            l = op["p"]["l"]
            if op["p"]["proj"]:
                return l if body["locals"][l].get("name") or l <= body["arg_count"] else None
            if body["locals"][l].get("name") or l <= body["arg_count"] or depth > 6:
                return l
            rv_ = sdef.get(l)
            if rv_ is not None and rv_["k"] == "Use" and rv_["op"].get("k") in ("copy", "move"):
                return base_of(rv_["op"], depth + 1)
            return None
        for blk in body["blocks"]:
            for s in blk["stmts"]:
                if s["k"] != "Assign":
                    continue
                rv = s["rv"]
                if rv["k"] == "BinaryOp" and rv["op"].replace("WithOverflow", "") in _COMMUTATIVE and rv["l"].get("k") == "const" and rv["r"].get("k") != "const":
                    rv["l"], rv["r"] = rv["r"], rv["l"]
                    n += 1
                elif rv["k"] == "BinaryOp" and rv["op"].replace("WithOverflow", "") in _COMMUTATIVE and rv["l"].get("k") in ("copy", "move") and rv["r"].get("k") in ("copy", "move"):
                    # two variables: the one declared first comes first (`n + off` reads as `off + n` when off is the older local)
                    bl, br = base_of(rv["l"]), base_of(rv["r"])
                    if bl is not None and br is not None and br < bl:
                        rv["l"], rv["r"] = rv["r"], rv["l"]
                        n += 1
                if rv["k"] == "UnaryOp" and rv["op"] == "Not" and not s["p"]["proj"] and ndefs.get(s["p"]["l"]) == 1 and body["locals"][s["p"]["l"]]["ty"] == "bool" and rv["x"].get("k") in ("copy", "move"):
                    nots[s["p"]["l"]] = (blk, rv["x"])
            t = blk["term"]
            if t["k"] == "SwitchInt" and t.get("discr_ty") == "bool" and t["discr"].get("k") in ("copy", "move") and not t["discr"]["p"]["proj"] and len(t["targets"]) == 1 and t["targets"][0][0] == 0:
                hit = nots.get(t["discr"]["p"]["l"])
                # (only when the negation was computed in this very block: nothing can have changed the operand in between)
                if hit is not None and hit[0] is blk:
                    t["discr"] = {"k": "copy", "p": copy.deepcopy(hit[1]["p"])}
                    t["targets"], t["otherwise"] = [[0, t["otherwise"]]], t["targets"][0][1]
                    n += 1
    raw["_canonical_operands"] = n
    return n


def skip_empty_gotos(raw):
    """Blocks that hold nothing but a jump are stepped over: every edge into such a block leads to where it leads (whether rustc
    puts a `bbN: goto bbM` between a test and its arm is an accident of lowering - rules that ask for the successor of an edge
    get the block where something happens)."""
    n = 0
    for body in raw["bodies"]:
        B = body["blocks"]

        def final(b, seen=()):
            blk = B[b]
            if b != 0 and not blk["stmts"] and blk["term"]["k"] == "Goto" and not blk.get("cleanup") and b not in seen and blk["term"]["target"] != b:
                return final(blk["term"]["target"], seen + (b,))
            return b
        for blk in B:
            t = blk["term"]
            k = t["k"]
            if k in ("Goto", "Call", "Assert", "Drop") and isinstance(t.get("target"), int):
                f = final(t["target"])
                if f != t["target"]:
                    t["target"] = f
                    n += 1
            elif k == "SwitchInt":
                nt = [[v, final(tb)] for v, tb in t["targets"]]
                no = final(t["otherwise"])
                if nt != t["targets"] or no != t["otherwise"]:
                    t["targets"], t["otherwise"] = nt, no
                    n += 1
    raw["_skipped_gotos"] = n
    return n


def close_exhaustive_switches(raw):
    """A switch on an enum's discriminant whose listed values are all the variants there are cannot take its `otherwise` edge.
    rustc usually points that edge at an unreachable block, but it may reuse a real one (the `else` of a let-else, the `_` arm
    of a match that the other arms already exhaust): the edge then looks like a way into that block.  It is given an
    unreachable block of its own."""
    n = 0
    discr_of = {a["path"]: [int(v["discr"]) for v in a["variants"]] for a in raw.get("adts", []) if a.get("kind") == "enum" and all("discr" in v for v in a["variants"])}
    for body in raw["bodies"]:
        B = body["blocks"]
        for bi in range(len(B)):
            blk = B[bi]
            t = blk["term"]
            if t["k"] != "SwitchInt" or t["discr"].get("k") not in ("copy", "move") or t["discr"]["p"]["proj"]:
                continue
            if B[t["otherwise"]]["term"]["k"] == "Unreachable" and not B[t["otherwise"]]["stmts"]:
                continue
            dl = t["discr"]["p"]["l"]
            ds = [s for s in blk["stmts"] if s["k"] == "Assign" and s["p"] == {"l": dl, "proj": []} and s["rv"]["k"] == "Discriminant"]
            if len(ds) != 1:
                continue
            rv = ds[0]["rv"]
            adt = rv.get("adt") or ""
            if adt.split("::")[-1] in ("Option", "Result", "ControlFlow") and adt.startswith("core::"):
                allv = list(range(len(rv.get("variants") or [])))
            else:
                allv = discr_of.get(adt)
            if not allv or set(v for v, _tb in t["targets"]) != set(allv):
                continue
            B.append({"stmts": [], "term": {"k": "Unreachable", "sp": t["sp"]}, "cleanup": False})
            t["otherwise"] = len(B) - 1
            n += 1
    raw["_closed_switches"] = n
    return n


def lower_adaptors(raw):
    """Rewrite raw["bodies"] in place (idempotent: a lowered call is no longer a call).  -> number of call sites lowered"""
    if raw.get("_lowered"):
        return 0
    canonical_free_fn_paths(raw)
    close_exhaustive_switches(raw)
    skip_empty_gotos(raw)
    canonical_operands(raw)
    closures = {strip_generics(b["path"]): b for b in raw["bodies"] if b["kind"] == "Closure"}
    n = 0
    _INLINED.clear()
    # innermost closures first, so that an inlined body is already lowered
    order = sorted(raw["bodies"], key=lambda b: -b["path"].count("{closure"))
    def one_pass():
        k = 0
        live = {id(b) for b in raw["bodies"]}
        for body in order:
            if id(body) not in live:
                continue
            for bi in range(len(body["blocks"])):
                nb0 = len(body["blocks"])
                if _lower_call(body, bi, closures) or _lower_try_for_each(body, bi, closures) or _lower_plain(body, bi) or _lower_bool_then(body, bi, closures):
                    k += 1
                    for nb in body["blocks"][nb0:]:
                        nb["low"] = True
                    mark = body["blocks"][bi].get("inl")
                    if mark:
                        # lowered inside inlined code: the new blocks belong to the inlined region as well
                        for nb in body["blocks"][nb0:]:
                            nb.setdefault("inl", mark)
        return k
    n += one_pass()
    raw["_lowered"] = True
    raw["_lowered_sites"] = n
    if inline_helpers(raw):
        # adaptor calls inside the inlined helpers whose function argument is a closure the caller handed in
        n += one_pass()
        raw["_lowered_sites"] = n
    canonical_byteorder(raw)
    thread_helper_results(raw)
    unroll_small_loops(raw)
    split_tuple_locals(raw)
    raw["_inlined_closures"] = set(_INLINED)
    _mark_consumed(raw)
    return n
