"""Adaptor lowering: a normalisation of the extracted MIR that runs before any rule.

`opt.map(|x| ..)`, `opt.filter(pred)`, `opt.and_then(..)`, `opt.map_or(d, ..)`, `opt.is_some_and(..)`, `res.map(..)`, ... with a
closure argument are rewritten into what they mean - a switch on the discriminant, the closure's body inlined as blocks of the
calling function, and the result built explicitly - so that every rule sees `match opt { Some(x) => Some(f(x)), None => None }`
whichever way the source spells it.  The semantics used are those documented for core::option::Option / core::result::Result;
only calls whose function argument is a closure of this crate (its body is in the facts) are lowered, everything else is
left as a call.  The closure bodies stay in the facts as functions of their own as well (rules that enumerate closures still
find them).

The pass is deliberately small: it knows the data-flow of a dozen adaptors and nothing about this crate.
"""
import copy

from .mir import strip_generics

# adaptor -> (enum kind, how the payload is handed to the closure, what is built)
#   payload: "val" | "ref" | None (closure takes no argument);  on: which variant runs the closure
#   build:   description interpreted in _lower_call
OPT, RES = "core::option::Option", "core::result::Result"
ADAPTORS = {
    "core::option::Option::map":            dict(adt=OPT, on=1, pay="val", then="wrap-same", other="rebuild"),
    "core::option::Option::and_then":       dict(adt=OPT, on=1, pay="val", then="result", other="rebuild"),
    "core::option::Option::filter":         dict(adt=OPT, on=1, pay="ref", then="keep-if", other="rebuild"),
    "core::option::Option::is_some_and":    dict(adt=OPT, on=1, pay="val", then="result", other=("bool", 0)),
    "core::option::Option::is_none_or":     dict(adt=OPT, on=1, pay="val", then="result", other=("bool", 1)),
    "core::option::Option::map_or":         dict(adt=OPT, on=1, pay="val", then="result", other="default-arg", fidx=2),
    "core::option::Option::unwrap_or_else": dict(adt=OPT, on=0, pay=None, then="result", other="payload"),
    "core::option::Option::or_else":        dict(adt=OPT, on=0, pay=None, then="result", other="same"),
    "core::option::Option::ok_or_else":     dict(adt=OPT, on=0, pay=None, then=("wrap", RES, 1, "Err"), other=("wrap-payload", RES, 0, "Ok")),
    "core::option::Option::inspect":        dict(adt=OPT, on=1, pay="ref", then="same", other="same"),
    "core::result::Result::map":            dict(adt=RES, on=0, pay="val", then=("wrap", RES, 0, "Ok"), other=("wrap-payload", RES, 1, "Err")),
    "core::result::Result::and_then":       dict(adt=RES, on=0, pay="val", then="result", other=("wrap-payload", RES, 1, "Err")),
    "core::result::Result::is_ok_and":      dict(adt=RES, on=0, pay="val", then="result", other=("bool", 0)),
    "core::result::Result::is_err_and":     dict(adt=RES, on=1, pay="val", then="result", other=("bool", 0)),
    "core::result::Result::unwrap_or_else": dict(adt=RES, on=1, pay="val", then="result", other="payload"),
}
VARIANTS = {OPT: ["None", "Some"], RES: ["Ok", "Err"]}


def _place(l, proj=()):
    return {"l": l, "proj": [list(e) for e in proj]}


def _assign(p, rv, sp):
    return {"k": "Assign", "p": p, "rv": rv, "sp": sp}


def _use(p, mode="copy"):
    return {"k": "Use", "op": {"k": mode, "p": p}}


def _goto(t, sp):
    return {"k": "Goto", "target": t, "sp": sp}


def _remap(x, lbase, bbase, pbase):
    """shift locals, block numbers and promoted indices of a copied closure body (in place)"""
    if isinstance(x, dict):
        if isinstance(x.get("l"), int) and ("proj" in x or x.get("k") in ("StorageLive", "StorageDead")):
            x["l"] += lbase
        if "proj" in x and isinstance(x["proj"], list):
            for e in x["proj"]:
                if e and e[0] == "index":
                    e[1] += lbase
        if x.get("k") == "const" and isinstance(x.get("promoted"), int):
            x["promoted"] += pbase
        k = x.get("k")
        if k in ("Goto", "Call", "Assert", "Drop"):
            if isinstance(x.get("target"), int):
                x["target"] += bbase
            if isinstance(x.get("unwind"), int):
                x["unwind"] += bbase
        if k == "SwitchInt":
            x["targets"] = [[v, b + bbase] for v, b in x["targets"]]
            x["otherwise"] += bbase
        for key, v in x.items():
            if key in ("targets", "sp", "fn_sp"):
                continue
            _remap(v, lbase, bbase, pbase)
    elif isinstance(x, list):
        for v in x:
            _remap(v, lbase, bbase, pbase)


def _closure_of(body, op, closures):
    """the closure body an operand denotes: a local of closure type"""
    if not isinstance(op, dict) or op.get("k") not in ("move", "copy") or op["p"]["proj"]:
        return None, None
    l = op["p"]["l"]
    tag = body["locals"][l].get("tag") or ""
    if not tag.startswith("closure:"):
        return None, None
    return closures.get(strip_generics(tag[len("closure:"):])), l


def _inline(body, clo, clo_local, args, cont, sp):
    """append clo's blocks to body; -> (entry block, local holding the closure's result)"""
    lbase = len(body["locals"])
    body["locals"].extend(copy.deepcopy(clo["locals"]))
    pbase = len(body.setdefault("promoted", []))
    body["promoted"].extend(copy.deepcopy(clo.get("promoted", [])))
    entry = len(body["blocks"])
    stmts = []
    selfty = clo["locals"][1]["ty"]
    if selfty.startswith("&"):
        stmts.append(_assign(_place(lbase + 1), {"k": "Ref", "mut": selfty.startswith("&mut"), "p": _place(clo_local)}, sp))
    else:
        stmts.append(_assign(_place(lbase + 1), _use(_place(clo_local)), sp))
    for i, (mode, pl) in enumerate(args):
        if mode == "ref":
            stmts.append(_assign(_place(lbase + 2 + i), {"k": "Ref", "mut": False, "p": pl}, sp))
        else:
            stmts.append(_assign(_place(lbase + 2 + i), _use(pl), sp))
    body["blocks"].append({"stmts": stmts, "term": _goto(entry + 1, sp), "cleanup": False})
    for blk in clo["blocks"]:
        nb = copy.deepcopy(blk)
        _remap(nb, lbase, entry + 1, pbase)
        if nb["term"]["k"] == "Return":
            nb["term"] = _goto(cont, nb["term"].get("sp", sp))
        body["blocks"].append(nb)
    return entry, lbase


def _adt_agg(adt, variant, ops):
    return {"k": "Aggregate", "agg": "Adt", "adt": adt, "variant": variant, "variant_name": VARIANTS[adt][variant], "fields": ["0"] if ops else [], "ops": ops}


def _lower_call(body, bi, closures):
    blk = body["blocks"][bi]
    t = blk["term"]
    if t["k"] != "Call" or not t.get("callee") or t.get("target") is None or t["dest"]["proj"]:
        return False
    spec = ADAPTORS.get(strip_generics(t["callee"]))
    if spec is None:
        return False
    fidx = spec.get("fidx", 1)
    if len(t["args"]) <= fidx:
        return False
    clo, clo_local = _closure_of(body, t["args"][fidx], closures)
    recv = t["args"][0]
    if clo is None or recv.get("k") not in ("move", "copy") or recv["p"]["proj"]:
        return False
    want_args = 0 if spec["pay"] is None else 1
    if clo["arg_count"] != 1 + want_args:
        return False
    sp, dest, cont = t["sp"], t["dest"], t["target"]
    adt, on = spec["adt"], spec["on"]
    off = 1 - on
    rl = recv["p"]["l"]
    payload = lambda v: _place(rl, [["downcast", v, VARIANTS[adt][v]], ["field", 0, "0"]])
    has_payload = lambda v: not (adt == OPT and v == 0)
    # discriminant local
    dl = len(body["locals"])
    body["locals"].append({"ty": "isize", "tag": "isize", "name": None})
    # continuation of the closure: builds the result
    after = len(body["blocks"])
    body["blocks"].append({"stmts": [], "term": _goto(cont, sp), "cleanup": False})
    args = [] if spec["pay"] is None else [(spec["pay"], payload(on))]
    entry, lbase = _inline(body, clo, clo_local, args, after, sp)
    res = _place(lbase)
    then = spec["then"]
    st = body["blocks"][after]["stmts"]
    if then == "result":
        st.append(_assign(dest, _use(res, "move"), sp))
    elif then == "wrap-same":
        st.append(_assign(dest, _adt_agg(adt, on, [{"k": "move", "p": res}]), sp))
    elif isinstance(then, tuple) and then[0] == "wrap":
        st.append(_assign(dest, _adt_agg(then[1], then[2], [{"k": "move", "p": res}]), sp))
    elif then == "same":
        st.append(_assign(dest, _use(_place(rl), "move"), sp))
    elif then == "keep-if":
        yes, no = len(body["blocks"]), len(body["blocks"]) + 1
        body["blocks"].append({"stmts": [_assign(dest, _adt_agg(adt, on, [{"k": "copy", "p": payload(on)}]), sp)], "term": _goto(cont, sp), "cleanup": False})
        body["blocks"].append({"stmts": [_assign(dest, _adt_agg(adt, 0, []), sp)], "term": _goto(cont, sp), "cleanup": False})
        body["blocks"][after]["term"] = {"k": "SwitchInt", "discr": {"k": "move", "p": res}, "discr_ty": "bool", "targets": [[0, no]], "otherwise": yes, "sp": sp}
    else:
        return False
    # the other variant
    other = spec["other"]
    ob = len(body["blocks"])
    ost = []
    if other == "rebuild":
        ost.append(_assign(dest, _adt_agg(adt, off, [{"k": "move", "p": payload(off)}] if has_payload(off) else []), sp))
    elif other == "same":
        ost.append(_assign(dest, _use(_place(rl), "move"), sp))
    elif other == "payload":
        ost.append(_assign(dest, _use(payload(off), "move"), sp))
    elif other == "default-arg":
        ost.append(_assign(dest, {"k": "Use", "op": copy.deepcopy(t["args"][1])}, sp))
    elif isinstance(other, tuple) and other[0] == "bool":
        ost.append(_assign(dest, {"k": "Use", "op": {"k": "const", "ty": "bool", "tag": "bool", "val": other[1]}}, sp))
    elif isinstance(other, tuple) and other[0] == "wrap-payload":
        ost.append(_assign(dest, _adt_agg(other[1], other[2], [{"k": "move", "p": payload(off)}]), sp))
    else:
        return False
    body["blocks"].append({"stmts": ost, "term": _goto(cont, sp), "cleanup": False})
    ndefs = sum(1 for b_ in body["blocks"] for s_ in b_["stmts"] if s_["k"] == "Assign" and s_["p"] is dest)
    body.setdefault("lowered_calls", {})[dest["l"]] = {"block": bi, "term": t, "ndefs": ndefs}
    blk["stmts"].append(_assign(_place(dl), {"k": "Discriminant", "p": _place(rl), "adt": adt, "variants": VARIANTS[adt]}, sp))
    blk["term"] = {"k": "SwitchInt", "discr": {"k": "move", "p": _place(dl)}, "discr_ty": "isize", "targets": [[on, entry]], "otherwise": ob, "sp": sp,
                   "lowered": strip_generics(t["callee"])}
    return True


def lower_adaptors(raw):
    """Rewrite raw["bodies"] in place (idempotent: a lowered call is no longer a call).  -> number of call sites lowered"""
    if raw.get("_lowered"):
        return 0
    closures = {strip_generics(b["path"]): b for b in raw["bodies"] if b["kind"] == "Closure"}
    n = 0
    # innermost closures first, so that an inlined body is already lowered
    order = sorted(raw["bodies"], key=lambda b: -b["path"].count("{closure"))
    for body in order:
        for bi in range(len(body["blocks"])):
            if _lower_call(body, bi, closures):
                n += 1
    raw["_lowered"] = True
    raw["_lowered_sites"] = n
    return n
