"""Deciding guards for concrete values (constant propagation through switch edges).

specialise_on(fn, pred, val): the switch edges that cannot be taken when the subterm selected by `pred` has the constant
value `val`.  Rules use it to ask "what does this function do for BPB_NumFATs == 2 / command index 17 / status byte
0x80" independently of how the tests are written (==, !=, match, ranges, matches!, masks, early returns).
accepted_values(fn, b, is_x, width): the exact value set admitted by the tests every path to block b has to pass."""
from .ev import all_guards, resolve_bool_temps
from .mir import strip_refs, subterms


def has_sub(t, pred):
    return any(pred(s) for s in subterms(t))


def _fold(t):
    """constant value of a term (ints / bools) or None"""
    t = strip_refs(t)
    if t[0] == "c" and isinstance(t[1], (int, bool)):
        return int(t[1])
    if t[0] == "cast":
        v = _fold(t[2])
        if v is None:
            return None
        w = {"u8": 8, "u16": 16, "u32": 32, "u64": 64, "usize": 64}.get(t[1])
        return v & ((1 << w) - 1) if w else v
    if t[0] == "call" and t[1] and t[1].endswith(("From::from", "Into::into")) and len(t[2]) == 1:
        return _fold(t[2][0])
    if t[0] == "un" and t[1] == "Not":
        v = _fold(t[2])
        return None if v is None else int(not v)
    if t[0] in ("bin", "cmp"):
        a, b = _fold(t[2]), _fold(t[3])
        if a is None or b is None:
            return None
        op = t[1]
        if op in ("Shl", "Shr") and not (0 <= b < 128):
            return None
        try:
            if op in ("Shl", "Shr"):
                return (a << b) if op == "Shl" else (a >> b)
            if op in ("Rem", "Div"):
                return None if not b else (a % b if op == "Rem" else a // b)
            return {"Add": a + b, "Sub": a - b, "Mul": a * b, "BitAnd": a & b, "BitOr": a | b, "BitXor": a ^ b,
                    "Eq": int(a == b), "Ne": int(a != b), "Lt": int(a < b), "Le": int(a <= b), "Gt": int(a > b), "Ge": int(a >= b)}.get(op)
        except Exception:  # noqa
            return None
    return None


def _subst_pred(t, pred, val):
    if isinstance(t, tuple) and t and pred(t):
        return ("c", val, None)
    if not isinstance(t, tuple):
        return t
    return tuple(_subst_pred(x, pred, val) if isinstance(x, tuple) else x for x in t)


def specialise_on(fn, pred, val):
    """edges that cannot be taken when the subterm selected by `pred` has the constant value `val` (bool temporaries set
    in match arms are resolved iteratively)"""
    cut = []
    memo = fn.__dict__.setdefault("_spec_memo", {})
    rel = memo.get(id(pred))
    if rel is None or rel[0] is not pred:
        rel = (pred, [(gb, gi, g) for (gb, gi, g) in all_guards(fn) if has_sub(g.term, pred)])
        memo[id(pred)] = rel
    for (gb, gi, g) in rel[1]:
        tt = _subst_pred(g.term, pred, val)
        v = _fold(tt)
        if v is None:
            continue
        if g.kind == "bool" and bool(v) != g.truth:
            cut.append((gb, gi))
        elif g.kind == "value" and v != g.value:
            cut.append((gb, gi))
        elif g.kind == "notvalues" and v in g.others:
            cut.append((gb, gi))
    return resolve_bool_temps(fn, cut, fold=lambda t: _fold(_subst_pred(t, pred, val)) if has_sub(t, pred) else None)


def specialise_all(fn, assignments):
    """union of specialise_on for several (pred, value) pairs, bool temporaries resolved over the union"""
    cut = []
    for pred, val in assignments:
        cut += [e for e in specialise_on(fn, pred, val) if e not in cut]

    def fold(t):
        for pred, val in assignments:
            t = _subst_pred(t, pred, val)
        return _fold(t)
    return resolve_bool_temps(fn, cut, fold=fold)


def specialise_joint(fn, assignments):
    """like specialise_all, but a test that mentions several of the selected subterms is decided with all of them set at
    once (`(cluster >= 2) != (size != 0)` needs both)"""
    def fold(t):
        for pred, val in assignments:
            t = _subst_pred(t, pred, val)
        return _fold(t)
    cut = []
    for (gb, gi, g) in all_guards(fn):
        if not any(has_sub(g.term, pred) for pred, _v in assignments):
            continue
        v = fold(g.term)
        if v is None:
            continue
        if g.kind == "bool" and bool(v) != g.truth:
            cut.append((gb, gi))
        elif g.kind == "value" and v != g.value:
            cut.append((gb, gi))
        elif g.kind == "notvalues" and v in g.others:
            cut.append((gb, gi))
    return resolve_bool_temps(fn, cut, fold=lambda t: fold(t) if any(has_sub(t, pred) for pred, _v in assignments) else None)


def compared_constants(fn, pred):
    """integer constants that terms containing the pred-subterm are compared with / switched on"""
    out = set()
    for (gb, gi, g) in all_guards(fn):
        if not has_sub(g.term, pred):
            continue
        if g.kind == "bool" and g.term[0] == "cmp":
            for x in (g.term[2], g.term[3]):
                v = _fold(x)
                if v is not None:
                    out.add(v)
        elif g.kind == "value" and isinstance(g.value, int):
            out.add(g.value)
        elif g.kind == "notvalues":
            out |= {v for v in g.others if isinstance(v, int)}
    return out




_CMPF = {"Eq": lambda a, b: a == b, "Lt": lambda a, b: a < b, "Le": lambda a, b: a <= b, "Gt": lambda a, b: a > b, "Ge": lambda a, b: a >= b, "Ne": lambda a, b: a != b}


def _value_pred(g, is_x):
    """the set of values of x (as a predicate) for which guard edge g is taken, or None when g is not a test of x against constants"""
    if g.kind == "bool":
        t = g.term
        truth = bool(g.truth)
        if t[0] == "cmp":
            a, b = strip_refs(t[2]), strip_refs(t[3])
            if is_x(a) and b[0] == "c" and isinstance(b[1], int):
                return lambda v, op=t[1], c=b[1]: _CMPF[op](v, c) == truth
            if is_x(b) and a[0] == "c" and isinstance(a[1], int):
                return lambda v, op=t[1], c=a[1]: _CMPF[op](c, v) == truth
            return None
        if t[0] == "call" and t[1] and t[1].endswith("::contains") and len(t[2]) == 2 and is_x(strip_refs(t[2][1])):
            r = strip_refs(t[2][0])
            if r[0] == "call" and r[1] and r[1].endswith("RangeInclusive::new") and all(x[0] == "c" and isinstance(x[1], int) for x in r[2][:2]):
                return lambda v, lo=r[2][0][1], hi=r[2][1][1]: (lo <= v <= hi) == truth
            if r[0] == "agg" and r[2] and r[2].endswith(("ops::Range", "ops::Range::Range")) and len(r[3]) == 2 and all(x[0] == "c" and isinstance(x[1], int) for x in r[3]):
                return lambda v, lo=r[3][0][1], hi=r[3][1][1]: (lo <= v < hi) == truth
        return None
    if g.kind == "value" and is_x(strip_refs(g.term)) and isinstance(g.value, int):
        return lambda v, c=g.value: v == c
    if g.kind == "notvalues" and is_x(strip_refs(g.term)):
        return lambda v, cs=tuple(g.others): v not in cs
    return None


def accepted_values(fn, b, is_x, width):
    """The exact set of values of x (an unsigned integer of `width` bits, enumerated) admitted by the tests of x against
    constants that every path to block b has to pass - independent of how the tests are written (range.contains, chained
    comparisons, early returns, match ranges).  Returns (set, number of tests used)."""
    vals = set(range(2 ** width))
    used = 0
    for (gb, gi, g) in all_guards(fn):
        pr = _value_pred(g, is_x)
        if pr is None or not fn.unreachable_without(b, [(gb, gi)]):
            continue
        used += 1
        vals = {v for v in vals if pr(v)}
    return vals, used


