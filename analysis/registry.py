"""Property -> rules registry and CLI."""
import os
import sys

from . import framework
from .framework import RULES
from . import rules_cache, rules_guard, rules_fs, rules_ef, rules_sd, rules_walk, rules_crc, rules_codec, rules_lfn, rules_iv, rules_r3  # noqa: F401  (registers rules)

PROPS = {}

# Additional property coverage of rules (each rule is a necessary condition of these properties too):
EXTRA_PAIRS = [
    # round 8
    ("MT2", ["C16"]),          # whether FAT updates are mirrored is decided at mount by BPB_NumFATs alone
    ("FL1", ["C05"]),          # an entry that is not rewritten at flush leaves its freshly allocated first cluster ownerless
    ("IX1", ["C09", "C02"]),   # a flush that persists another table slot's entry loses the flushed file's length / first cluster
    ("PV1", ["C10"]),          # a directory cluster that is not blanked completely exposes stale entries after a power cut
    ("BC1", ["C10"]), ("BC2", ["C10"]),   # blank_mut must hand out zeroes: make_dir / directory growth rely on it block by block
    ("SD11", ["C14"]),         # an absorbed driver error lets the conversation go on in a state the card is not in
    ("OR2", ["C01", "C09"]),   # a truncated chain that is not terminated / freed correctly aliases other files' data
    ("FT9", ["C01", "C09"]),
    ("OR4", ["C03", "C01"]),   # recorded length never runs ahead of the data/chain actually written
    ("LS4", ["C04", "C07", "C02", "C09"]),   # walker extent decides which blocks a create may write; lookup extent decides 'exists'
    ("CD1", ["C09"]),          # the flushed entry must encode the start cluster correctly
    ("CD4", ["C09"]),
    ("SD9", ["C12"]),          # framing of data packets decides which bytes are taken as the next block
    ("SD10", ["C12"]),
    ("OR6", ["C11"]),          # delete frees the chain only after the entry is gone: a failed delete never leaves a live entry on freed clusters
    ("BM1", ["C02"]),
    ("MD9x", ["C09"]),
    ("EF1", ["C07", "C03"]),
    ("SD2", ["C12"]),
    # --- round 4: a rule that already explains the breakage also answers for the property the change was written against
    ("FT11", ["C01", "C02", "C04"]),   # a cluster number beyond the volume: data lands behind the partition / in the next volume
    ("FT5", ["C01", "C10", "C02"]),
    ("OR1", ["C01", "C09", "C02", "C05"]),   # a "new" cluster not verified free is somebody else's data
    ("OR5", ["C06", "C04", "C09"]),    # the blanked extent of a new directory cluster is exactly that cluster (not one block more)
    ("SK2", ["C03", "C05"]),           # extension from a stale cursor orphans the tail of the chain (leaked clusters)
    ("IS4", ["C05"]),                  # a stale FSInfo count must not make the volume refuse allocations while the FAT has free clusters
    ("NE1", ["C09"]),                  # a wrong recorded entry position makes the next flush overwrite another file's entry
    ("SD1", ["C13"]),                  # response masks / tokens decide what counts as "accepted"
    ("FA1", ["C03"]),                  # a start cluster cut to 16 bits frees / cross-links somebody else's chain
    ("LS3", ["C07", "C02"]),                  # lookup must see every live entry: 'exists' decides create / FileAlreadyExists / NotFound
    ("RL1", ["C11"]),                  # a failed call must not leave an unclosable handle behind (API wedged)
    ("SD17", ["C12"]),                 # stray bytes on MOSI during a multi-block read can be a STOP_TRANSMISSION frame
    ("FT2", ["C10", "C01", "C02", "C09"]),   # a mirror write at the wrong block overwrites the root directory / data
    ("FT12", ["C10"]),
    # --- consequences spelled out (a violated structural rule breaks every property that relies on the structure)
    ("MT2", ["C02", "C04"]), ("MT3", ["C02", "C04"]), ("MT6", ["C02", "C04"]),   # wrong geometry: an independent reader disagrees; writes land in the wrong region
    ("FT3", ["C01", "C02", "C09"]), ("FT4", ["C01", "C02", "C09"]),          # a FAT entry written at the wrong place / width cross-links or loses chains
    ("LS1", ["C02"]), ("LS2", ["C02"]),                                        # a fresh mount lists the flushed files
    ("LS5", ["C01", "C02", "C03", "C04"]), ("CD4", ["C01", "C02", "C03", "C04"]),           # a wrongly decoded start cluster reads / frees somebody else's chain
    ("WR1", ["C02", "C09"]), ("SK5", ["C02"]),                                 # what write() puts on the medium is what a fresh mount reads
    ("BC2", ["C02", "C09"]), ("BC3", ["C02"]), ("BC5", ["C02"]),
    ("DK1", ["C01"]),                                                        # everything reported as written is readable
    ("DD1", ["C06", "C10"]),                                                 # '.' and '..' lead to the directory they designate
    ("CR1", ["C14", "C12"]), ("CR2", ["C13", "C14", "C12"]),                   # the checksums the frames / the read check rely on
    ("CD2", ["C02"]), ("CD3", ["C06", "C07"]), ("CD5", ["C06"]),                 # stored mtime; names decide lookups
    ("MT0", ["C04"]),
    # --- round 5
    ("FL2", ["C08"]),   # close always frees the slot and invalidates the handle
    ("FT6", ["C16"]),   # an allocation that fails after the FAT update leaves the free count untrue
    ("SD2", ["C12", "C19"]),   # the checksum on the wire is crc7 of the frame, for every command and CRC mode
    ("BC1", ["C02"]),
    ("OR6", ["C11", "C03"]),   # a failed delete must not leave a live entry whose chain is already free
    ("CD1", ["C10"]),   # an entry naming the wrong start cluster refers to a free / foreign cluster          # a frame without a valid CRC-7 is rejected by cards that check it (CMD0/CMD8 always do)   # create only when the name is definitively absent (no error masquerading as NotFound): unique names
    # --- round 6
    ("LS4", ["C01"]),    # a lookup that cannot see entries in later clusters makes written data unreadable (and re-creates the file)
    ("FT13", ["C02", "C04"]),   # treating cluster 0/1 as data clusters rewrites FAT[0] (media descriptor) in both copies
    ("BC1", ["C03", "C06"]),   # a poisoned cache block is written back into a directory / FAT sector, or listed as another directory
    ("SD7", ["C04"]),    # the card address decides which device block is written
    ("OR6", ["C09"]),
    ("OR1", ["C11"]),
    ("MT4", ["C16"]),    # FSInfo sentinels: a truthful count (incl. 0) is tracked, only 0xFFFFFFFF means unknown
    ("MT1", ["C16"]),
    ("MT5", ["C16"]),
    ("SD9", ["C19"]), ("SD10", ["C19"]), ("SD11", ["C19"]),   # the data checksum is verified / sent for every block, high byte first
    ("IS2", ["C10", "C15"]),   # the FSInfo signatures survive every rewrite of the sector (the volume must still mount)
    ("NC1", ["C02", "C09", "C10"]),
    ("TR1", ["C02", "C09"]),
    ("LS6", ["C02"]),
    # --- round 7
    ("MD1", ["C02"]),    # the resolved mode decides whether old contents survive (create-or-truncate must truncate)
    ("MD3", ["C04"]), ("MD7", ["C04"]),   # a refused open must not have truncated / rewritten anything
    ("NE1", ["C01", "C05", "C06", "C07"]),   # the recorded entry position decides which slot later flushes rewrite; free-slot reuse bounds directory growth
    ("OR2", ["C08", "C11"]),   # a truncating open that fails must not leave a registered, handle-less open file
    ("MT2", ["C10"]),    # a cluster count rounded up admits a cluster beyond the volume
    ("EF1", ["C09"]),    # a flush that reports success although a write failed is not durable
    ("LS3", ["C03", "C10"]),   # lookup and delete must agree on which entry a name denotes
    ("MK1", ["C06"]), ("MD10", ["C01"]), ("SD18", ["C19"]), ("SD19", ["C12"]),
    # --- round 9
    ("FT4", ["C03"]),    # reserved-bit / special-value handling of update_fat: a link stored with stray high bits runs out of the volume
    ("MT4", ["C03"]),    # the FAT12/16/32 decision: a FAT12 table rewritten as 16-bit entries cross-links every chain
    ("BC3", ["C06"]),    # a cached directory sector served after the device was handed out lists entries that are no longer on the medium
    ("BM1", ["C10"]),    # zeroing the wrong cluster leaves the new directory cluster with stale contents (and wipes somebody's data)
    ("AT1", ["C17"]),    # which slots are long-name fragments is decided by the attribute predicate
    ("FT3", ["C05"]),    # a free test on the unmasked entry never finds clusters whose reserved bits are set: space is lost
    ("IO1", ["C09"]),    # embedded_io::Write::flush is flush_file: what a generic caller flushed is durable
    ("LS4", ["C10"]),    # a delete that scans another directory than the one named tombstones a foreign entry and frees a live file's chain
    # --- round 10
    ("IO1", ["C08"]),    # the adapters answer a stale handle / a held lock with an error, never with a panic
    ("TC1", ["C09"]),    # an undo path that frees the previous last cluster / ends the directory early destroys files that were already flushed
    ("IX1", ["C03"]),    # a table indexed with another table's index edits the FAT of the wrong volume
    ("NE1", ["C10"]),    # a reused slot that keeps the deleted file's start cluster is a live entry on free clusters
    ("SK5", ["C05"]),    # positions the translation refuses are capacity that cannot be used: the volume fills up early
    ("SK1", ["C07"]),    # the append modes position the handle with seek_from_end(0): it must succeed for every file length
    # --- round 11
    ("AC1", ["C04"]),    # an allocation linked behind a cluster that is not the chain's tail rewrites a FAT entry the call does not own
    ("MT2", ["C05"]),    # the cluster count fixed at mount is the capacity the volume hands out
    ("WT1", ["C05"]),    # an entry / data block that is not written back leaves allocated clusters ownerless, or reports data as written that is not on the medium
    ("MD3", ["C02"]),    # a create that is not refused for an existing name leaves two entries of that name on the medium
    # --- round 12
    ("MD7", ["C11"]),    # a call that fails (on a device error too) leaves no table slot / handle behind: every handle can still be used and closed
    ("IS4", ["C09", "C10"]),   # a mount that refuses a stale but harmless FSInfo record makes the whole volume - flushed files included - unreachable after a power cut
    ("FT4", ["C10"]),    # a chain link written with lost bits refers to free space on the medium
    ("LS4", ["C05"]),    # a delete walk that does not reach the entry leaves the file's clusters allocated for good
    ("PV1", ["C02"]),    # a cache block of the wrong class (the boot sector) rewritten: something the history did not touch changes on the medium
    ("MT4", ["C04"]),    # a volume mounted at the wrong place / with a misread sector size writes outside the regions its BPB describes
    ("MD4", ["C04"]),    # deleting a directory frees clusters an open directory handle still refers to: later writes through it land in other files' data
    ("CB1", ["C15"]),    # where the data area's clusters are: files placed by another formatter are found only if cluster n is at first_data_block + (n-2)*blocks_per_cluster
    ("MD8", ["C03"]),    # an append handle whose cursor does not name the cluster of its offset writes into the wrong cluster and records a length the chain does not cover
    # --- round 13
    ("IX1", ["C06"]),    # a lookup that indexes the directory table with another table's index searches a different directory: names that exist are not found, duplicates get created
    ("FC2", ["C09", "C10"]),   # a chain released for anything but the looked-up entry of a delete / truncate takes clusters away from files that were flushed long ago
    ("SD14", ["C13"]),   # a handshake command the card answers with an error fails the initialisation (Cmd58Error): otherwise a failed initialisation leaves the card marked initialised, with a guessed kind
    ("FL1", ["C11"]),    # a flush that panics for a dirty file of length 0 leaves a handle that can be neither flushed nor closed
]
EXTRA = {}
for _k, _v in EXTRA_PAIRS:      # a rule may be listed several times (one line per reason): the lists add up
    EXTRA.setdefault(_k, [])
    EXTRA[_k] += [x for x in _v if x not in EXTRA[_k]]
for _r, _ps in EXTRA.items():
    if _r in RULES:
        for _p_ in _ps:
            if _p_ not in RULES[_r]["props"]:
                RULES[_r]["props"].append(_p_)


def rules_for(prop):
    return [rid for rid, spec in RULES.items() if prop in spec["props"]]


def main(argv):
    if not argv:
        print(__doc__)
        return 2
    prop = argv[0]
    tier = os.environ.get("VERIF_TIER", "quick")
    only = None
    i = 1
    while i < len(argv):
        if argv[i] == "--tier":
            tier = argv[i + 1]
            i += 2
        elif argv[i] == "--rule":
            only = argv[i + 1]
            i += 2
        else:
            i += 1
    rids = rules_for(prop)
    if only:
        rids = [r for r in rids if r == only]
    if not rids:
        print("no rules registered for %s" % prop)
        return 2
    from .propinfo import INFO
    info = INFO.get(prop, {})
    proof = None
    if info.get("level") == "proof":
        def proof(instances):
            ob = sum(1 for i in instances if i["status"] in ("pass", "violation"))
            from . import rules_crc
            fine = rules_crc.PROOF
            return {"obligations": max(ob, 1), "discharged": sum(1 for i in instances if i["status"] == "pass"),
                    "fine_grained_obligations": dict(fine),
                    "checker_cmd": "cd /verif && ./check %s --tier %s" % (prop, tier),
                    "trusted_base": ["rustc MIR construction and const evaluation", "mirfacts serialisation", "analysis/absval.py bit-vector transfer functions (xor, and/or with constants, constant shifts, casts)",
                                     "analysis/stdmodel.py models of u16::from, slice iteration", "reference CRC step computed from the polynomial in analysis/rules_crc.py:ref_step"]}
    return framework.check_property(
        prop,
        rids,
        tier,
        level=info.get("level", "other"),
        explanation=info.get("explanation", "static rules over MIR facts: " + ", ".join(rids)),
        assumptions=info.get("assumptions", framework_default_assumptions()),
        proof=proof,
    )


def framework_default_assumptions():
    return [
        "rustc type checker, MIR construction and const evaluation are correct; mirfacts serialises MIR faithfully",
        "calls into the user's BlockDevice/TimeSource/SpiDevice/DelayNs and callbacks return and cannot touch library state",
        "paths are over-approximated (no infeasible-path pruning except constant branches)",
    ]
