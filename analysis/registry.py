"""Property -> rules registry and CLI."""
import os
import sys

from . import framework
from .framework import RULES
from . import rules_cache, rules_guard, rules_fs, rules_ef, rules_sd, rules_walk  # noqa: F401  (registers rules)

PROPS = {}


def rules_for(prop):
    return [rid for rid, spec in RULES.items() if prop in spec["props"]]


def main(argv):
    if not argv:
        print(__doc__)
        return 2
    prop = argv[0]
    tier = os.environ.get("VERIF_TIER", "quick")
    only = None
    i = 1
    while i < len(argv):
        if argv[i] == "--tier":
            tier = argv[i + 1]
            i += 2
        elif argv[i] == "--rule":
            only = argv[i + 1]
            i += 2
        else:
            i += 1
    rids = rules_for(prop)
    if only:
        rids = [r for r in rids if r == only]
    if not rids:
        print("no rules registered for %s" % prop)
        return 2
    from .propinfo import INFO
    info = INFO.get(prop, {})
    return framework.check_property(
        prop,
        rids,
        tier,
        level=info.get("level", "other"),
        explanation=info.get("explanation", "static rules over MIR facts: " + ", ".join(rids)),
        assumptions=info.get("assumptions", framework_default_assumptions()),
    )


def framework_default_assumptions():
    return [
        "rustc type checker, MIR construction and const evaluation are correct; mirfacts serialises MIR faithfully",
        "calls into the user's BlockDevice/TimeSource/SpiDevice/DelayNs and callbacks return and cannot touch library state",
        "paths are over-approximated (no infeasible-path pruning except constant branches)",
    ]
