#!/usr/bin/env python3
"""Exploration helper: print dominating guards of each call to <callee> in <fn>."""
import json, sys, os
sys.path.insert(0, os.path.dirname(os.path.dirname(os.path.abspath(__file__))))
from analysis.mir import Facts, tstr, callee_of, is_log_call
from analysis.ev import guards_of

def load(path="/verif/.cache/dev-log.json"):
    return Facts(json.load(open(path)))

if __name__ == "__main__":
    F = load()
    fn = F.fn(sys.argv[1])
    pat = sys.argv[2] if len(sys.argv) > 2 else None
    for b, t in fn.calls():
        if is_log_call(t): continue
        c = callee_of(t)
        if pat and (not c or pat not in c): continue
        print("bb%d %s  @%s" % (b, tstr(fn.call_term(t, b)), t["sp"]["l0"]))
        for g in guards_of(fn, b):
            print("      guard@%s: %r" % (g.line, g))
