"""Path-partitioning abstract interpreter over mirfacts MIR.

Domains: per-bit GF(2)-affine forms (exact for xor/shift/mask code), intervals with symbolic terms
(for panic-freedom obligations), concrete enums/aggregates/pointers. Control flow that depends on an
undetermined value forks the path (trace partitioning); loops are unrolled while their conditions are
determined, otherwise handled by havoc (IV mode) or reported as UNDECIDED.
"""
import sys

from .absval import (TOP, TOPBIT, UNIT, Vars, agg, arr, bits_of, cast_int, const, int_binop, int_cmp, int_const, int_overflows, is_agg,
                     is_int, is_ptr, is_top, join, mk_int, ptr, refine_cmp, sym_int, top_int, ty_info, with_term, bnot)
from .mir import strip_generics, path_matches, is_log_call

sys.setrecursionlimit(20000)


from .framework import Undecided as _RuleUndecided


class Undecided(_RuleUndecided):
    """Raised when the interpreter leaves its decidable fragment; the framework reports the rule as undecided (exit 2)."""


class PathEnd(Exception):
    pass


class State:
    __slots__ = ("frames", "nfid", "term_ranges", "noovf", "cons", "visits", "steps", "havocked", "trace", "rels")

    def __init__(self):
        self.frames = {}
        self.nfid = 0
        self.term_ranges = {}
        self.noovf = frozenset()
        self.cons = ()  # GF(2) constraints: tuple of masks, each meaning mask == 0, kept in reduced form
        self.visits = {}
        self.steps = 0
        self.havocked = frozenset()
        self.trace = ()
        self.rels = frozenset()  # relational facts ('le', term_a, term_b): a <= b

    def fork(self):
        s = State()
        s.frames = {k: dict(v) for k, v in self.frames.items()}
        s.nfid = self.nfid
        s.term_ranges = dict(self.term_ranges)
        s.noovf = self.noovf
        s.cons = self.cons
        s.visits = dict(self.visits)
        s.steps = self.steps
        s.havocked = self.havocked
        s.trace = self.trace
        s.rels = self.rels
        return s

    def new_frame(self):
        fid = self.nfid
        self.nfid += 1
        self.frames[fid] = {}
        return fid

    # --- GF(2) constraint system ---
    def reduce(self, m):
        if m == TOPBIT:
            return m
        for c in self.cons:
            piv = c & -c if (c & ~1) == 0 else ((c & ~1) & -(c & ~1))
            if m & piv:
                m ^= c
        return m

    def add_con(self, m):
        """add constraint m == 0; returns False if inconsistent"""
        m = self.reduce(m)
        if m == 0:
            return True
        if m == 1:
            return False
        self.cons = self.cons + (m,)
        return True


class Obligations:
    def __init__(self):
        self.items = {}

    def record(self, key, ok, detail, loc):
        it = self.items.setdefault(key, {"ok": 0, "bad": 0, "detail": None, "loc": loc})
        if ok:
            it["ok"] += 1
        else:
            it["bad"] += 1
            if it["detail"] is None:
                it["detail"] = detail


class Interp:
    def __init__(self, F, mode="bv", models=None, max_steps=200000, max_paths=4000, inline_depth=12, unroll=2000):
        self.F = F
        self.mode = mode  # 'bv' (undecided loops -> Undecided) | 'iv' (havoc loops)
        self.vars = Vars()
        self.obl = Obligations()
        self.max_steps = max_steps
        self.max_paths = max_paths
        self.inline_depth = inline_depth
        self.unroll = unroll
        self.npaths = 0
        self.models = {}
        self.notes = []
        self.by_path = {}
        for f in F.fns:
            self.by_path.setdefault(f.npath, f)
        from . import stdmodel
        stdmodel.install(self)
        if models:
            self.models.update(models)
        self.heap_fid = None
        self.loop_info = {}

    # ------------------------------------------------------------------ heap
    def heap_alloc(self, st, value):
        if self.heap_fid is None or self.heap_fid not in st.frames:
            if -1 not in st.frames:
                st.frames[-1] = {}
            self.heap_fid = -1
        cells = st.frames[-1]
        k = len(cells)
        cells[k] = value
        return ptr(-1, k)

    # ------------------------------------------------------------------ types
    def adt_kind(self, path):
        a = self.F.adts.get(path)
        return a

    def top_of_ty(self, ty):
        ti = ty_info(ty)
        if ti:
            return top_int(ti[0], ti[1])
        return TOP

    def const_value(self, op, fn):
        ty = op.get("ty", "")
        if "fn" in op:
            return ("fn", strip_generics(op["fn"]), op.get("fn_full"), op.get("ctor_of"), op.get("fn_kind"))
        ti = ty_info(ty)
        if "val" in op:
            v = op["val"]
            if ti:
                return const(v, ti[0], ti[1])
            # newtype / enum constant with scalar representation
            tag = op.get("tag", "")
            if tag.startswith("adt:"):
                ap = tag[4:]
                a = self.F.adts.get(ap)
                if a and a["kind"] == "struct" and len(a["variants"][0]["fields"]) == 1:
                    fty = a["variants"][0]["fields"][0]["ty"]
                    fi = ty_info(fty)
                    if fi:
                        return agg("struct", ap, 0, [const(v, fi[0], fi[1])])
                if a and a["kind"] == "enum":
                    for var in a["variants"]:
                        if int(var["discr"]) == v and not var["fields"]:
                            return agg("enum", ap, var["idx"], [])
            return TOP
        if op.get("tag") == "array" and op.get("def"):
            # a constant lookup table (the driver emits integer arrays element by element)
            c = self.F.consts.get(strip_generics(op["def"])) or self.F.consts.get(op["def"])
            if c and c.get("elems") is not None:
                et = ty_info(op["ty"].strip("[]").split(";")[0].strip())
                if et:
                    return arr([const(int(x), et[0], et[1]) for x in c["elems"]])
            return TOP
        if "promoted" in op:
            return ("promoted", op["promoted"])
        if op.get("zst"):
            tag = op.get("tag", "")
            if tag.startswith("adt:"):
                a = self.F.adts.get(tag[4:])
                if a and a["kind"] == "struct":
                    return agg("struct", tag[4:], 0, [])
            return ("zst", ty)
        if "repr" in op:
            return ("str", op["repr"])
        return TOP

    # ------------------------------------------------------------------ places
    def resolve(self, fn, fid, place, st):
        """-> (fid, local, path tuple, win) or None when the place goes through an unknown pointer"""
        cf, cl, path, win = fid, place["l"], (), None
        for e in place["proj"]:
            k = e[0]
            if k == "deref":
                v = self.read_loc(st, (cf, cl, path, win))
                if not is_ptr(v):
                    return None
                cf, cl, path, win = v[1], v[2], v[3], v[4]
            elif k == "field":
                path = path + (("f", e[1]),)
            elif k == "downcast":
                path = path + (("v", e[1]),)
            elif k == "index":
                iv = st.frames[fid].get(e[1], TOP)
                path = path + (("i", iv, win),)
                win = None
            elif k == "cidx":
                if e[3]:
                    return None
                path = path + (("i", const(e[1], 64), win),)
                win = None
            elif k == "subslice":
                return None
            else:
                pass
        return (cf, cl, path, win)

    def _descend(self, v, path):
        for e in path:
            if is_top(v):
                return TOP
            if e[0] == "f":
                if is_agg(v):
                    v = v[4][e[1]] if e[1] < len(v[4]) else TOP
                else:
                    return TOP
            elif e[0] == "v":
                if is_agg(v) and v[1] == "enum" and v[3] is not None and v[3] != e[1]:
                    return TOP  # reading a variant that is not the active one (infeasible path)
            elif e[0] == "i":
                idx, win = e[1], e[2]
                off = 0
                if win is not None:
                    off = int_const(win[0]) if is_int(win[0]) else None
                if v[0] == "arr":
                    ci = int_const(idx) if is_int(idx) else None
                    if ci is not None and off is not None and 0 <= ci + off < len(v[1]):
                        v = v[1][ci + off]
                    else:
                        lin = self._affine_lookup(v[1], idx, off) if self.mode == "bv" else None
                        if lin is not None:
                            v = lin
                            continue
                        # unknown index: join of the candidates its range admits (elements share type)
                        e0 = v[1][0] if v[1] else TOP
                        if is_int(idx) and off is not None and is_int(e0) and idx[5] - idx[4] < 64 and 0 <= idx[4] + off and idx[5] + off < len(v[1]):
                            from .absval import join as _join
                            acc = v[1][idx[4] + off]
                            for k_ in range(idx[4] + off + 1, idx[5] + off + 1):
                                acc = _join(acc, v[1][k_])
                            v = acc
                        else:
                            v = top_int(e0[1], e0[2]) if is_int(e0) else TOP
                elif v[0] == "arrtop":
                    v = v[3] if len(v) > 3 else TOP
                else:
                    return TOP
        return v

    def _affine_lookup(self, elems, idx, off):
        """table[idx] for a constant table of 2^k integers and an index whose bits are affine forms over GF(2): when the
        table is itself affine in the index bits (T[i] = T[0] ^ XOR_{j in i} (T[2^j] ^ T[0]) - true of every CRC table),
        the looked-up value is again a vector of affine forms.  None when this does not apply."""
        n = len(elems)
        if off not in (0, None) or n < 2 or n & (n - 1) or not is_int(idx) or idx[3] is None:
            return None
        k = n.bit_length() - 1
        vals = [int_const(e) if is_int(e) else None for e in elems]
        if any(x is None for x in vals):
            return None
        ib = bits_of(idx)
        if any(b == TOPBIT for b in ib[:k]) or any(b != 0 for b in ib[k:]):
            return None
        t0 = vals[0]
        d = [vals[1 << j] ^ t0 for j in range(k)]
        for i in range(n):
            x = t0
            for j in range(k):
                if (i >> j) & 1:
                    x ^= d[j]
            if x != vals[i]:
                self.notes.append("lookup table is not affine in its index (entry %d is %#x, the other entries imply %#x)" % (i, vals[i], x))
                self.nonaffine_table = (i, vals[i], x)
                return None
        w = elems[0][1]
        bits = []
        for m in range(w):
            b = (t0 >> m) & 1
            for j in range(k):
                if (d[j] >> m) & 1:
                    b ^= ib[j]
            bits.append(b)
        return mk_int(w, False, tuple(bits))

    def read_loc(self, st, loc):
        cf, cl, path, win = loc
        fr = st.frames.get(cf)
        if fr is None:
            return TOP
        v = fr.get(cl, TOP)
        return self._descend(v, path)

    def _update(self, v, path, new):
        if not path:
            return new
        e = path[0]
        if e[0] == "f":
            if is_agg(v):
                fs = list(v[4])
                while len(fs) <= e[1]:
                    fs.append(TOP)
                fs[e[1]] = self._update(fs[e[1]], path[1:], new)
                return agg(v[1], v[2], v[3], fs)
            return TOP if path[1:] else TOP
        if e[0] == "v":
            if is_agg(v):
                return self._update(agg(v[1], v[2], e[1], v[4]), path[1:], new)
            return TOP
        if e[0] == "i":
            idx, win = e[1], e[2]
            off = 0
            if win is not None:
                off = int_const(win[0]) if is_int(win[0]) else None
            if v[0] == "arr":
                ci = int_const(idx) if is_int(idx) else None
                if ci is not None and off is not None and 0 <= ci + off < len(v[1]):
                    el = list(v[1])
                    el[ci + off] = self._update(el[ci + off], path[1:], new)
                    return arr(el)
                # unknown index: weak update of all elements
                el = [join(x, self._update(x, path[1:], new)) for x in v[1]]
                return arr(el)
            return v
        return v

    def write_loc(self, st, loc, val):
        cf, cl, path, win = loc
        fr = st.frames.get(cf)
        if fr is None:
            return
        fr[cl] = self._update(fr.get(cl, TOP), path, val)

    def read_place(self, fn, fid, place, st):
        loc = self.resolve(fn, fid, place, st)
        if loc is None:
            return TOP
        v = self.read_loc(st, loc)
        return v

    def coerce(self, fn, local, v):
        """give TOP a scalar shape if the local's type is scalar"""
        if is_top(v):
            return self.top_of_ty(fn.locals[local]["ty"])
        return v

    def write_place(self, fn, fid, place, val, st):
        if not place["proj"]:
            val = self.coerce(fn, place["l"], val)
            if is_int(val) and val[6] is None and int_const(val) is None:
                # give the value an identity so that branch refinements reach later reads of this local
                val = with_term(val, ("loc", fid, place["l"], st.steps))
            st.frames[fid][place["l"]] = val
            return
        loc = self.resolve(fn, fid, place, st)
        if loc is None:
            self.notes.append("store through unknown pointer in %s" % fn.npath)
            return
        self.write_loc(st, loc, val)

    # ------------------------------------------------------------------ operands / rvalues
    def operand(self, fn, fid, op, st):
        k = op["k"]
        if k == "const":
            if op.get("static"):
                # `&TABLE` of a static integer table (emitted with the consts): a pointer to its contents
                c = self.F.consts.get(strip_generics(op["static"])) or self.F.consts.get(op["static"])
                if c and c.get("elems") is not None and "[" in c.get("ty", ""):
                    et = ty_info(c["ty"].strip("[]").split(";")[0].strip())
                    if et:
                        return self.heap_alloc(st, arr([const(int(x), et[0], et[1]) for x in c["elems"]]))
                return TOP
            v = self.const_value(op, fn)
            if isinstance(v, tuple) and v and v[0] == "promoted":
                return self.eval_promoted(fn, v[1], st)
            if isinstance(v, tuple) and v and v[0] == "str" and v[1].startswith('b"') and v[1].endswith('"'):
                try:
                    import ast
                    bs = ast.literal_eval(v[1])
                    return self.heap_alloc(st, arr([const(x, 8) for x in bs]))
                except Exception:
                    return v
            return v
        if k in ("copy", "move"):
            v = self.read_place(fn, fid, op["p"], st)
            if is_top(v) and not op["p"]["proj"]:
                v = self.coerce(fn, op["p"]["l"], v)
            return self.apply_ranges(st, v)
        return TOP

    def apply_ranges(self, st, v):
        if is_int(v) and v[6] is not None and v[6] in st.term_ranges:
            lo, hi = st.term_ranges[v[6]]
            return mk_int(v[1], v[2], v[3], max(lo, v[4]), min(hi, v[5]), v[6])
        return v

    def eval_promoted(self, fn, idx, st):
        pb = fn.promoted[idx]
        from .mir import Fn
        pf = Fn(dict(pb, path=fn.path + "::promoted[%d]" % idx, promoted=[]), self.F)
        outs = self.run(pf, [], st, 0)
        if len(outs) == 1:
            return outs[0][0]
        return TOP

    def term_of(self, v):
        return v[6] if is_int(v) else None

    def mkterm(self, op, a, b):
        ta, tb = self.term_of(a), self.term_of(b)
        if ta is None:
            ca = int_const(a)
            ta = ("k", ca) if ca is not None else None
        if tb is None:
            cb = int_const(b)
            tb = ("k", cb) if cb is not None else None
        if ta is None or tb is None:
            return None
        if ta[0] == "k" and tb[0] == "k" and ta[1] is not None and tb[1] is not None:
            try:
                v = {"Add": ta[1] + tb[1], "Sub": ta[1] - tb[1], "Mul": ta[1] * tb[1], "Div": ta[1] // tb[1] if tb[1] else None, "Rem": ta[1] % tb[1] if tb[1] else None}[op]
            except Exception:
                v = None
            if v is not None and v >= 0:
                return ("k", v)
        # constant re-association (values as mathematical integers; each machine operation has its own overflow obligation):
        # (x + a) - b = x + (a - b) for a >= b, (x + a) + b = x + (a + b)
        def split_add(t_):
            if t_[0] == "Add" and t_[1][0] == "k" and t_[1][1] is not None:
                return t_[2], t_[1][1]
            if t_[0] == "Add" and t_[2][0] == "k" and t_[2][1] is not None:
                return t_[1], t_[2][1]
            return None
        if op in ("Add", "Sub") and tb[0] == "k" and tb[1] is not None and split_add(ta):
            x_, a_ = split_add(ta)
            n_ = a_ + tb[1] if op == "Add" else a_ - tb[1]
            if n_ >= 0:
                op, ta, tb = "Add", x_, ("k", n_)
        elif op == "Add" and ta[0] == "k" and ta[1] is not None and split_add(tb):
            x_, a_ = split_add(tb)
            ta, tb = x_, ("k", a_ + ta[1])
        if op in ("Add", "Mul") and repr(ta) > repr(tb):
            ta, tb = tb, ta
        t = (op, ta, tb)
        # lemma: (x + 511) / 512 == ceildiv(x, 512)
        if op == "Div" and tb == ("k", 512) and ta[0] == "Add" and ("k", 511) in (ta[1], ta[2]):
            x = ta[2] if ta[1] == ("k", 511) else ta[1]
            return ("ceildiv", x, 512)
        if _depth(t) > 8:
            return None
        return t

    def cmp(self, op, a, b, st):
        """comparison using intervals, bit forms and relational facts a <= b"""
        r = int_cmp(op, a, b)
        if int_const(r) is not None:
            return r
        ta, tb = a[6], b[6]
        if ta is not None and ta == tb:
            return const(1 if op in ("Eq", "Le", "Ge") else 0, 1)
        # b = a + n for a known n >= 0 (the addition has its own overflow obligation): a <= b, and a < b when n > 0
        d = self.term_offset(ta, tb)
        if d is not None:
            n = d
            truth = {"Le": n >= 0, "Lt": n > 0, "Ge": n <= 0, "Gt": n < 0, "Eq": n == 0, "Ne": n != 0}.get(op)
            if truth is not None:
                return const(1 if truth else 0, 1)
        if not st.rels:
            return r
        if ta is not None and tb is not None:
            if ("le", ta, tb) in st.rels:
                if op == "Le":
                    return const(1, 1)
                if op == "Gt":
                    return const(0, 1)
            if ("le", tb, ta) in st.rels:
                if op == "Ge":
                    return const(1, 1)
                if op == "Lt":
                    return const(0, 1)
        return r

    @staticmethod
    def term_offset(ta, tb):
        """n when tb is the term ta + n (n an integer constant, either operand order), -n when ta is tb + n; else None"""
        def split(t):
            """t as (base, constant): x + k -> (x, k), k -> (None, k), otherwise (t, 0)"""
            if t[0] == "k" and t[1] is not None:
                return (None, t[1])
            if t[0] == "Add":
                for x, y in ((t[1], t[2]), (t[2], t[1])):
                    if y[0] == "k" and y[1] is not None:
                        return (x, y[1])
            return (t, 0)
        if ta is None or tb is None:
            return None
        (ba, ka), (bb, kb) = split(ta), split(tb)
        if ba == bb:
            return kb - ka
        return None

    def term_lo(self, t, st):
        if t[0] == "k":
            return t[1]
        r = st.term_ranges.get(t)
        return r[0] if r else 0

    def entails_noovf(self, t, st):
        """Is term t known not to overflow on this path? Exact fact, or x + y <= x + n*y for a recorded
        no-overflow fact about x + n*y with n >= 1 (monotonicity of unsigned arithmetic)."""
        if t in st.noovf:
            return True
        if t[0] == "Add":
            x, y = t[1], t[2]
            for f in st.noovf:
                if f[0] != "Add":
                    continue
                for (p, q) in ((f[1], f[2]), (f[2], f[1])):
                    for (u, v) in ((x, y), (y, x)):
                        # fact: p + q with p == u and q == Mul(v, n), n >= 1
                        if p == u and q[0] == "Mul" and v in (q[1], q[2]):
                            n = q[2] if q[1] == v else q[1]
                            if self.term_lo(n, st) >= 1:
                                return True
        return False

    def rvalue(self, fn, fid, rv, st, dest_ty=None):
        k = rv["k"]
        if k == "Use":
            return self.operand(fn, fid, rv["op"], st)
        if k == "BinaryOp":
            a = self.operand(fn, fid, rv["l"], st)
            b = self.operand(fn, fid, rv["r"], st)
            return self.binop(rv["op"], a, b, st, dest_ty)
        if k == "UnaryOp":
            x = self.operand(fn, fid, rv["x"], st)
            op = rv["op"]
            if op == "Not" and is_int(x):
                return mk_int(x[1], x[2], tuple(bnot(b) for b in bits_of(x)))
            if op == "Neg" and is_int(x):
                c = int_const(x)
                if c is not None:
                    return const(-c, x[1], x[2])
                return top_int(x[1], x[2])
            if op == "PtrMetadata":
                if is_ptr(x) and x[4] is not None:
                    return x[4][1]
                if is_ptr(x):
                    tgt = self.read_loc(st, (x[1], x[2], x[3], None))
                    if tgt[0] == "arr":
                        return const(len(tgt[1]), 64)
                return top_int(64)
            return TOP
        if k == "Cast":
            x = self.operand(fn, fid, rv["op"], st)
            kind = rv["kind"]
            ti = ty_info(rv["ty"])
            if kind == "IntToInt" and ti:
                if is_int(x):
                    return cast_int(x, ti[0], ti[1])
                if is_agg(x) and x[1] == "enum" and x[3] is not None:
                    a = self.F.adts.get(x[2])
                    if a:
                        return const(int(a["variants"][x[3]]["discr"]), ti[0], ti[1])
                return top_int(ti[0], ti[1])
            if "PointerCoercion" in kind and is_ptr(x):
                if "Unsize" in kind:
                    tgt = self.read_loc(st, (x[1], x[2], x[3], None))
                    if tgt[0] == "arr" and x[4] is None:
                        return ptr(x[1], x[2], x[3], (const(0, 64), const(len(tgt[1]), 64)), x[5])
                return x
            if kind in ("PtrToPtr", "Subtype") or "PointerCoercion" in kind:
                return x
            if ti:
                return top_int(ti[0], ti[1])
            return TOP
        if k in ("Ref", "RawPtr"):
            pj = rv["p"]["proj"]
            if pj and pj[-1][0] == "subslice":
                # &s[from..] / &s[from..len-to] of a slice pattern (`[first, rest @ ..]`): the window moves
                base = self.resolve(fn, fid, {"l": rv["p"]["l"], "proj": pj[:-1]}, st)
                if base is None:
                    return TOP
                frm, to, from_end = pj[-1][1], pj[-1][2], pj[-1][3]
                if base[3] is not None:
                    s0, ln = base[3]
                else:
                    tgt = self.read_loc(st, (base[0], base[1], base[2], None))
                    if not (isinstance(tgt, tuple) and tgt and tgt[0] == "arr"):
                        return TOP
                    s0, ln = const(0, 64), const(len(tgt[1]), 64)
                if not (is_int(s0) and is_int(ln)):
                    return TOP
                newlen = int_binop("Sub", ln, const(frm + to, 64)) if from_end else const(to - frm, 64)
                return ptr(base[0], base[1], base[2], (int_binop("Add", s0, const(frm, 64)), newlen), bool(rv.get("mut", True)))
            loc = self.resolve(fn, fid, rv["p"], st)
            if loc is None:
                return TOP
            return ptr(loc[0], loc[1], loc[2], loc[3], bool(rv.get("mut", True)))
        if k == "CopyForDeref":
            return self.read_place(fn, fid, rv["p"], st)
        if k == "Discriminant":
            v = self.read_place(fn, fid, rv["p"], st)
            if is_agg(v) and v[3] is not None:
                a = self.F.adts.get(v[2])
                d = v[3]
                if a and a["kind"] == "enum":
                    d = int(a["variants"][v[3]]["discr"])
                elif (v[2] or "").endswith("cmp::Ordering"):
                    return const(v[3] - 1, 8, True)             # Less / Equal / Greater are -1 / 0 / 1 in an i8
                return const(d, 64, True)
            return top_int(64, True)
        if k == "Aggregate":
            ops = [self.operand(fn, fid, o, st) for o in rv["ops"]]
            a = rv["agg"]
            if a == "Adt":
                ad = self.F.adts.get(rv["adt"])
                kind = "enum" if (ad and ad["kind"] == "enum") or rv["adt"].split("::")[-1] in ("Option", "Result", "ControlFlow") else "struct"
                return agg(kind, rv["adt"], rv["variant"], ops)
            if a == "Tuple":
                return agg("tuple", None, None, ops)
            if a == "Array":
                return arr(ops)
            if a == "Closure":
                return agg("closure", strip_generics(rv["closure"]), None, ops)
            return TOP
        if k == "Repeat":
            x = self.operand(fn, fid, rv["op"], st)
            try:
                n = int(rv["n"])
            except Exception:
                return TOP
            if n > 4096:
                return TOP
            return arr([x] * n)
        return TOP

    def binop(self, op, a, b, st, dest_ty=None):
        base = op.replace("WithOverflow", "")
        with_ovf = op.endswith("WithOverflow")
        if is_top(a) and is_int(b):
            a = top_int(b[1], b[2])
        if is_top(b) and is_int(a):
            b = top_int(a[1], a[2]) if base not in ("Shl", "Shr") else top_int(32)
        if not (is_int(a) and is_int(b)):
            if base in ("Eq", "Ne", "Lt", "Le", "Gt", "Ge"):
                if is_agg(a) and is_agg(b) and a[1] == "enum" and b[1] == "enum" and a[3] is not None and b[3] is not None and not a[4] and not b[4]:
                    r = (a[3] == b[3])
                    return const(int(r if base == "Eq" else (not r)), 1) if base in ("Eq", "Ne") else top_int(1)
                return top_int(1)
            if with_ovf:
                return agg("tuple", None, None, [TOP, top_int(1)])
            return TOP
        if base in ("Eq", "Ne", "Lt", "Le", "Gt", "Ge"):
            r = self.cmp(base, a, b, st)
            if int_const(r) is None:
                r = with_term(r, ("cmp", base, a, b))
            return r
        if base in ("Shl", "Shr") and a[1] != b[1]:
            pass
        elif a[1] != b[1]:
            b = cast_int(b, a[1], a[2])
        r = int_binop(base, a, b)
        t = self.mkterm(base, a, b) if base in ("Add", "Sub", "Mul", "Div", "Rem") else None
        ov = None
        if base in ("Add", "Sub", "Mul"):
            ov = int_overflows(base, a, b)
            if ov is None and t is not None and self.entails_noovf(t, st):
                ov = 0
            if ov == 0 and not a[2]:
                # ideal result == machine result: keep the interval of the ideal value
                if base == "Add":
                    lo, hi = a[4] + b[4], a[5] + b[5]
                elif base == "Sub":
                    lo, hi = max(a[4] - b[5], 0), a[5] - b[4]
                else:
                    lo, hi = a[4] * b[4], a[5] * b[5]
                hi = min(hi, (1 << a[1]) - 1)
                r = mk_int(r[1], r[2], r[3], max(lo, r[4]) if lo <= r[5] else r[4], min(hi, r[5]) if hi >= r[4] else r[5])
        if t is not None:
            r = with_term(r, t)
            r = self.apply_ranges(st, r)
        if with_ovf:
            if ov == 0:
                of = const(0, 1)
            elif ov == 1:
                of = const(1, 1)
            else:
                of = with_term(top_int(1), ("ovf", t))
            return agg("tuple", None, None, [r, of])
        return r

    # ------------------------------------------------------------------ branching
    def branch_bool(self, st, v):
        """-> list of (truth, state) feasible branches for a bool value"""
        c = int_const(v)
        if c is not None:
            return [(bool(c), st)]
        out = []
        bits = bits_of(v)
        f = bits[0]
        t = v[6]
        for truth in (False, True):
            s2 = st.fork()
            if f != TOPBIT:
                if not s2.add_con(f ^ (1 if truth else 0)):
                    continue
            if t is not None and t[0] == "cmp":
                _, op, a, b = t
                if (op == "Eq" and truth) or (op == "Ne" and not truth):
                    # equality holds: every pair of known bit forms agrees
                    okb = True
                    for x, y in zip(bits_of(a), bits_of(b)):
                        if x != TOPBIT and y != TOPBIT and not s2.add_con(x ^ y):
                            okb = False
                            break
                    if not okb:
                        continue
                a2 = self.apply_ranges(s2, a)
                b2 = self.apply_ranges(s2, b)
                r = refine_cmp(op, a2, b2, truth)
                if r is None:
                    continue
                for old, new in ((a, r[0]), (b, r[1])):
                    if old[6] is not None:
                        s2.term_ranges[old[6]] = (new[4], new[5])
            elif t is not None and t[0] == "ovf" and not truth and t[1] is not None:
                s2.noovf = s2.noovf | {t[1]}
            elif t is not None and t[0] not in ("cmp", "ovf"):
                s2.term_ranges[t] = (int(truth), int(truth))
            out.append((truth, s2))
        return out

    # ------------------------------------------------------------------ execution
    def loops_of(self, fn):
        li = self.loop_info.get(fn.npath)
        if li is None:
            li = {}
            for (h, body, backs) in fn.loops():
                assigned = set()
                derefs = []
                calls_mut = []
                for b in body:
                    for s in fn.blocks[b]["stmts"]:
                        if s["k"] == "Assign":
                            if s["p"]["proj"] and any(e[0] == "deref" for e in s["p"]["proj"]):
                                derefs.append(s["p"])
                            assigned.add(s["p"]["l"])
                    t = fn.blocks[b]["term"]
                    if t["k"] == "Call":
                        if not t["dest"]["proj"]:
                            assigned.add(t["dest"]["l"])
                        for a in t["args"]:
                            if a.get("k") in ("copy", "move") and not a["p"]["proj"] and fn.locals[a["p"]["l"]]["ty"].startswith("&mut"):
                                calls_mut.append(a["p"]["l"])
                li[h] = (body, assigned, derefs, calls_mut)
            self.loop_info[fn.npath] = li
        return li

    def havoc_value(self, v, depth=0):
        if is_int(v):
            return top_int(v[1], v[2])
        if is_agg(v):
            if v[1] == "enum":
                return TOP
            return agg(v[1], v[2], v[3], [self.havoc_value(x, depth + 1) for x in v[4]])
        if isinstance(v, tuple) and v and v[0] == "arr":
            return arr([self.havoc_value(x, depth + 1) for x in v[1]])
        if is_ptr(v):
            return v
        if isinstance(v, tuple) and v and v[0] == "iter":
            return v  # summarised iterators carry only static facts
        return TOP

    def havoc_loop(self, fn, fid, h, st):
        body, assigned, derefs, calls_mut = self.loops_of(fn)[h]
        fr = st.frames[fid]
        # memory written through pointers inside the loop
        for p in derefs:
            loc = self.resolve(fn, fid, p, st)
            if loc is not None:
                old = self.read_loc(st, loc)
                self.write_loc(st, loc, self.havoc_value(old))
        for l in calls_mut:
            v = fr.get(l, TOP)
            if is_ptr(v):
                old = self.read_loc(st, (v[1], v[2], v[3], None))
                self.write_loc(st, (v[1], v[2], v[3], None), self.havoc_value(old))
        for l in assigned:
            if l in fr:
                old = fr[l]
                fr[l] = self.havoc_value(old) if not is_top(old) else self.top_of_ty(fn.locals[l]["ty"])

    def run(self, fn, args, st, depth, start=0, preset=None, stop=()):
        """Execute fn with args on state st. Returns list of (return value, state).
        `start`/`preset`/`stop` allow executing a region of the body (e.g. one loop iteration): execution begins at
        block `start` with locals preset, and a path ends with value ('stop', block, frame id) when it is about to enter a block in `stop`."""
        fid = st.new_frame()
        fr = st.frames[fid]
        for i, a in enumerate(args):
            fr[i + 1] = a
        if preset:
            fr.update(preset)
        outs = []
        work = [(start, 0, st)]
        first = True
        loops = self.loops_of(fn) if self.mode == "iv" else {}
        while work:
            b, si0, st = work.pop()
            while True:
                if si0:
                    pass
                elif b in stop and not first:
                    outs.append((("stop", b, fid), st))
                    break
                first = False
                st.steps += 1
                if st.steps > self.max_steps:
                    raise Undecided("step budget exhausted in %s" % fn.npath)
                key = (fid, b)
                n = st.visits.get(key, 0) + (0 if si0 else 1)
                st.visits[key] = n
                if si0:
                    pass
                elif self.mode == "iv" and b in loops:
                    hk = (fid, b)
                    if hk in st.havocked:
                        break  # second arrival at a summarised loop header: fixpoint
                    self.havoc_loop(fn, fid, b, st)
                    st.havocked = st.havocked | {hk}
                elif n > self.unroll:
                    raise Undecided("loop in %s (block %d) not decided after %d iterations" % (fn.npath, b, self.unroll))
                blk = fn.blocks[b]
                fr = st.frames[fid]
                split = False
                for si, s in enumerate(blk["stmts"]):
                    if si < si0:
                        continue
                    if s["k"] == "Assign":
                        lv = self.linear_lookup(fn, fid, s, st)
                        if lv is not None:
                            self.write_place(fn, fid, s["p"], lv, st)
                            continue
                        sp = self.index_split(fn, fid, s, st)
                        if sp:
                            for s2 in sp:
                                self.npaths += 1
                                if self.npaths > self.max_paths:
                                    raise Undecided("path budget exhausted in %s" % fn.npath)
                                work.append((b, si, s2))
                            split = True
                            break
                        p = s["p"]
                        dty = fn.locals[p["l"]]["ty"] if not p["proj"] else None
                        v = self.rvalue(fn, fid, s["rv"], st, dty)
                        self.write_place(fn, fid, p, v, st)
                    elif s["k"] == "SetDiscriminant":
                        old = self.read_place(fn, fid, s["p"], st)
                        if is_agg(old):
                            self.write_place(fn, fid, s["p"], agg(old[1], old[2], s["variant"], old[4]), st)
                if split:
                    break
                si0 = 0
                t = blk["term"]
                tk = t["k"]
                if tk == "Goto":
                    b = t["target"]
                    continue
                if tk == "Return":
                    outs.append((st.frames[fid].get(0, UNIT), st))
                    break
                if tk in ("Unreachable", "UnwindResume", "UnwindTerminate"):
                    break
                if tk == "Drop":
                    b = t["target"]
                    continue
                if tk == "SwitchInt":
                    d = self.operand(fn, fid, t["discr"], st)
                    nxt = self.switch(fn, t, d, st)
                    if not nxt:
                        break
                    for (tb, s2) in nxt[1:]:
                        self.npaths += 1
                        if self.npaths > self.max_paths:
                            raise Undecided("path budget exhausted in %s" % fn.npath)
                        work.append((tb, 0, s2))
                    b, st = nxt[0]
                    continue
                if tk == "Assert":
                    c = self.operand(fn, fid, t["cond"], st)
                    exp = bool(t["expected"])
                    okey = (fn.npath, b, "assert:" + t["kind"])
                    loc = fn.loc(b)
                    cc = int_const(c) if is_int(c) else None
                    if cc is not None:
                        if bool(cc) == exp:
                            self.obl.record(okey, True, None, loc)
                            b = t["target"]
                            continue
                        self.obl.record(okey, False, "assertion %s always fails: %s" % (t["kind"], t.get("snip")), loc)
                        break
                    # undetermined: obligation not discharged on this path; continue assuming it held
                    ops = [self.operand(fn, fid, o, st) for o in t["ops"]]
                    self.obl.record(okey, False, "%s may fail: `%s` with operand ranges %s" % (t["kind"], t.get("snip"), [self.show(o) for o in ops]), loc)
                    brs = self.branch_bool(st, c) if is_int(c) else [(exp, st)]
                    cont = [s2 for (tr, s2) in brs if tr == exp]
                    if not cont:
                        break
                    st = cont[0]
                    b = t["target"]
                    continue
                if tk == "Call":
                    if is_log_call(t):
                        if t["target"] is None:
                            break
                        if not t["dest"]["proj"]:
                            dl = t["dest"]["l"]
                            # logging is epsilon: the level test is taken as "disabled" so the log body is skipped
                            st.frames[fid][dl] = const(0, 1) if fn.locals[dl]["ty"] == "bool" else self.top_of_ty(fn.locals[dl]["ty"])
                        b = t["target"]
                        continue
                    res = self.call(fn, fid, b, t, st, depth)
                    if t["target"] is None or not res:
                        break
                    for (rv, s2) in res[1:]:
                        self.npaths += 1
                        if self.npaths > self.max_paths:
                            raise Undecided("path budget exhausted in %s" % fn.npath)
                        self.write_place(fn, fid, t["dest"], rv, s2)
                        work.append((t["target"], 0, s2))
                    rv, st = res[0]
                    self.write_place(fn, fid, t["dest"], rv, st)
                    b = t["target"]
                    continue
                break
        return outs

    def linear_lookup(self, fn, fid, s, st):
        """`table[i]` with a table of integer constants and an index whose bits are affine forms: when the table is affine over
        GF(2) on the index values that can occur (T[i ^ j] ^ T[0'] = (T[i] ^ T[0']) ^ (T[j] ^ T[0']) - every table-driven CRC is),
        the element's bits are affine forms of the index bits and no case split is needed.  Checked on all reachable entries."""
        rv = s["rv"]
        if self.mode != "bv" or not (rv["k"] == "Use" and rv["op"].get("k") in ("copy", "move")):
            return None
        p = rv["op"]["p"]
        if not p["proj"] or p["proj"][-1][0] != "index":
            return None
        iv = st.frames[fid].get(p["proj"][-1][1], TOP)
        if not is_int(iv) or int_const(iv) is not None:
            return None
        bits = bits_of(iv)
        if any(b_ == TOPBIT for b_ in bits):
            return None
        unk = [i for i, b_ in enumerate(bits) if b_ not in (0, 1)]
        if not unk or len(unk) > 12:
            return None
        tab = self.read_place(fn, fid, {"l": p["l"], "proj": p["proj"][:-1]}, st)
        if not (isinstance(tab, tuple) and tab and tab[0] == "arr"):
            return None
        elems = tab[1]
        base = sum(1 << i for i, b_ in enumerate(bits) if b_ == 1)
        top = base + sum(1 << i for i in unk)
        if top >= len(elems):
            return None
        vals = []
        for e in elems:
            c = int_const(e) if is_int(e) else None
            if c is None:
                return None
            vals.append(c)
        w, signed = elems[0][1], elems[0][2]
        t0 = vals[base]
        delta = [vals[base | (1 << i)] ^ t0 for i in unk]
        for u in range(1 << len(unk)):
            idx, want = base, t0
            for j, i in enumerate(unk):
                if (u >> j) & 1:
                    idx |= 1 << i
                    want ^= delta[j]
            if vals[idx] != want:
                return None        # not affine: left to the case split
        out = []
        for j_ in range(w):
            f = (t0 >> j_) & 1
            for j, i in enumerate(unk):
                if (delta[j] >> j_) & 1:
                    f ^= bits[i]
            out.append(f)
        self.notes.append("linear table lookup (%d entries checked) in %s" % (1 << len(unk), fn.npath))
        return mk_int(w, signed, tuple(out))

    def index_split(self, fn, fid, s, st):
        """Case split on a symbolic array index (table lookup): if the statement reads `table[i]` where the table holds
        constants and `i` has at most 8 undetermined affine bits, fork one state per feasible index value."""
        rv = s["rv"]
        places = []
        if rv["k"] == "Use" and rv["op"].get("k") in ("copy", "move"):
            places.append(rv["op"]["p"])
        for p in places:
            for e in p["proj"]:
                if e[0] != "index":
                    continue
                iv = st.frames[fid].get(e[1], TOP)
                if not is_int(iv) or int_const(iv) is not None:
                    continue
                bits = bits_of(iv)
                unk = [i for i, bb in enumerate(bits) if bb not in (0, 1)]
                if not unk or len(unk) > 8 or any(bits[i] == TOPBIT for i in unk):
                    continue
                outs = []
                for val in range(1 << len(unk)):
                    s2 = st.fork()
                    okc = True
                    nb = list(bits)
                    for j, i in enumerate(unk):
                        bv = (val >> j) & 1
                        if not s2.add_con(bits[i] ^ bv):
                            okc = False
                            break
                        nb[i] = bv
                    if okc:
                        s2.frames[fid][e[1]] = mk_int(iv[1], iv[2], tuple(nb))
                        outs.append(s2)
                return outs
        return None

    def show(self, v):
        if is_int(v):
            if v[4] == v[5]:
                return str(v[4])
            return "[%d, %d]" % (v[4], v[5])
        if is_top(v):
            return "?"
        return v[0]

    def switch(self, fn, t, d, st):
        """-> list of (target block, state)"""
        targets = t["targets"]
        oth = t["otherwise"]
        if not is_int(d):
            # unknown: all edges feasible
            res = [(tb, st.fork()) for v, tb in targets] + [(oth, st)]
            return _dedupe(res)
        c = int_const(d)
        if c is not None:
            for v, tb in targets:
                vv = v
                if d[2] and vv >= (1 << (d[1] - 1)):
                    vv -= 1 << d[1]
                if vv == c or v == (c & ((1 << d[1]) - 1)):
                    return [(tb, st)]
            return [(oth, st)]
        if d[1] == 1:
            out = []
            for truth, s2 in self.branch_bool(st, d):
                tv = 1 if truth else 0
                tgt = oth
                for v, tb in targets:
                    if v == tv:
                        tgt = tb
                out.append((tgt, s2))
            return out
        # multi-bit: feasibility by interval
        out = []
        for v, tb in targets:
            if d[4] <= v <= d[5]:
                s2 = st.fork()
                if d[6] is not None:
                    s2.term_ranges[d[6]] = (v, v)
                out.append((tb, s2))
        vals = {v for v, _ in targets}
        if not all(x in vals for x in range(d[4], min(d[5], d[4] + 300) + 1)) or d[5] - d[4] > 300:
            s2 = st
            lo, hi = d[4], d[5]
            while lo in vals:
                lo += 1
            while hi in vals:
                hi -= 1
            if d[6] is not None and lo <= hi:
                s2.term_ranges[d[6]] = (lo, hi)
            out.append((oth, s2))
        return out

    # ------------------------------------------------------------------ calls
    def call(self, fn, fid, b, t, st, depth):
        callee = strip_generics(t["callee"]) if t.get("callee") else None
        resolved = strip_generics(t["resolved"]) if t.get("resolved") else None
        args = [self.operand(fn, fid, a, st) for a in t["args"]]
        dty = fn.locals[t["dest"]["l"]]["ty"] if not t["dest"]["proj"] else None
        ctx = {"fn": fn, "fid": fid, "block": b, "term": t, "dest_ty": dty, "depth": depth}
        for name in (resolved, callee):
            if not name:
                continue
            m = self.find_model(name)
            if m is not None:
                r = m(self, st, args, ctx)
                if r is not NotImplemented:
                    return r
        # local function with a body?
        for name in (resolved, callee):
            if name and name in self.by_path and depth < self.inline_depth:
                target = self.by_path[name]
                if target.kind == "Closure" and len(args) == 2 and is_agg(args[1]) and args[1][1] == "tuple" and target.arg_count == 1 + len(args[1][4]):
                    # a closure called directly (`read_field(8)`): "rust-call" ABI - the arguments arrive as one tuple
                    args = [args[0]] + list(args[1][4])
                return self.run(target, args, st, depth + 1)
        # closures invoked through Fn* traits
        if callee and callee.split("::")[-1] in ("call_once", "call_mut", "call") and "ops::function" in (t.get("callee") or "") or (callee and callee.endswith(("FnOnce::call_once", "FnMut::call_mut", "Fn::call"))):
            r = self.call_closure(args, st, depth)
            if r is not None:
                return r
        return self.havoc_call(fn, t, args, st, dty)

    def call_closure(self, args, st, depth):
        if not args:
            return None
        c = args[0]
        if is_ptr(c):
            cv = self.read_loc(st, (c[1], c[2], c[3], None))
        else:
            cv = c
        if isinstance(cv, tuple) and cv and cv[0] == "fn":
            # function item used as a closure: constructor or plain function
            tup = args[1] if len(args) > 1 else UNIT
            real = list(tup[4]) if is_agg(tup) else []
            return self.call_fn_item(cv, real, st, depth)
        if not (is_agg(cv) and cv[1] == "closure"):
            return None
        body = self.by_path.get(cv[2])
        if body is None:
            return None
        tup = args[1] if len(args) > 1 else UNIT
        real = list(tup[4]) if is_agg(tup) else []
        envty = body.locals[1]["ty"] if len(body.locals) > 1 else ""
        if envty.startswith("&"):
            env = c if is_ptr(c) else self.heap_alloc(st, cv)
        else:
            env = cv
        return self.run(body, [env] + real, st, depth + 1)

    def call_fn_item(self, f, args, st, depth):
        name = f[1]
        if f[4] and f[4].startswith("Ctor") and f[3]:
            # enum variant / struct constructor
            parent = f[3]
            adt_path = parent
            vname = name.split("::")[-1]
            a = self.F.adts.get(parent)
            if a is None:
                # parent is the variant; the ADT is one level up
                adt_path = "::".join(parent.split("::")[:-1])
                a = self.F.adts.get(adt_path)
            if a:
                for var in a["variants"]:
                    if var["name"] == vname:
                        return [(agg("enum" if a["kind"] == "enum" else "struct", adt_path, var["idx"], args), st)]
            return [(TOP, st)]
        m = self.find_model(name)
        if m is not None:
            r = m(self, st, args, {"fn": None, "dest_ty": None, "depth": depth, "term": None})
            if r is not NotImplemented:
                return r
        if name in self.by_path:
            return self.run(self.by_path[name], args, st, depth + 1)
        return [(TOP, st)]

    def find_model(self, name):
        m = self.models.get(name)
        if m is not None:
            return m
        for suf, fnm in self.model_suffixes:
            if name.endswith(suf):
                return fnm
        return None

    def havoc_call(self, fn, t, args, st, dty):
        """Unknown external call: result TOP; pointees of &mut arguments are havocked."""
        for a, raw in zip(args, t["args"]):
            if is_ptr(a) and a[5]:
                old = self.read_loc(st, (a[1], a[2], a[3], None))
                self.write_loc(st, (a[1], a[2], a[3], None), self.havoc_value(old))
        self.notes.append("havoc: %s" % (t.get("callee") or "?"))
        if dty:
            return [(self.top_of_ty(dty), st)]
        return [(TOP, st)]


def _depth(t):
    if not isinstance(t, tuple):
        return 0
    return 1 + max([_depth(x) for x in t[1:]] or [0])


def _dedupe(res):
    seen = set()
    out = []
    for tb, s in res:
        if tb in seen:
            continue
        seen.add(tb)
        out.append((tb, s))
    return out
