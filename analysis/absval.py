"""Abstract values: integers with per-bit GF(2)-affine forms + intervals (+ optional symbolic term), aggregates,
arrays and pointers. All values are immutable tuples.

Bit forms: each bit is a Python int used as a bit mask over variable indices; mask bit 0 stands for the
constant 1, mask bit k (k >= 1) for variable k. 0 = constant zero, 1 = constant one. TOPBIT = -1 is "unknown".
"""

TOPBIT = -1


class Vars:
    """Registry of symbolic bit variables."""

    def __init__(self):
        self.names = ["1"]

    def fresh(self, name):
        self.names.append(name)
        return 1 << (len(self.names) - 1)

    def name_of_mask(self, m):
        if m == TOPBIT:
            return "?"
        if m == 0:
            return "0"
        out = []
        i = 0
        mm = m
        while mm:
            if mm & 1:
                out.append(self.names[i])
            mm >>= 1
            i += 1
        return "^".join(out)


WIDTH = {"bool": 1, "u8": 8, "u16": 16, "u32": 32, "u64": 64, "u128": 128, "usize": 64, "i8": 8, "i16": 16, "i32": 32, "i64": 64, "i128": 128, "isize": 64, "char": 32}
SIGNED = {"i8", "i16", "i32", "i64", "i128", "isize"}


def ty_info(ty):
    """(width, signed) for a scalar type name, else None."""
    if ty in WIDTH:
        return WIDTH[ty], ty in SIGNED
    return None


# ---- Int -------------------------------------------------------------------------------------------
# ('int', w, signed, bits|None, lo, hi, term|None)


def mk_int(w, signed, bits=None, lo=None, hi=None, term=None):
    if signed:
        tlo, thi = -(1 << (w - 1)), (1 << (w - 1)) - 1
    else:
        tlo, thi = 0, (1 << w) - 1
    if bits is not None:
        bits = tuple(bits)
        assert len(bits) == w, (len(bits), w)
        if all(b in (0, 1) for b in bits):
            v = sum(b << i for i, b in enumerate(bits))
            if signed and v >> (w - 1):
                v -= 1 << w
            return ("int", w, signed, bits, v, v, term)
        if not signed:
            blo = sum((1 << i) for i, b in enumerate(bits) if b == 1)
            bhi = sum((1 << i) for i, b in enumerate(bits) if b != 0)
            lo = blo if lo is None else max(lo, blo)
            hi = bhi if hi is None else min(hi, bhi)
        if all(b == TOPBIT for b in bits):
            bits = None
    lo = tlo if lo is None else max(lo, tlo)
    hi = thi if hi is None else min(hi, thi)
    if lo == hi and bits is None and lo >= 0:
        bits = tuple((lo >> i) & 1 for i in range(w))
    elif lo == hi and bits is None:
        v = lo & ((1 << w) - 1)
        bits = tuple((v >> i) & 1 for i in range(w))
    return ("int", w, signed, bits, lo, hi, term)


def const(v, w, signed=False, term=None):
    u = v & ((1 << w) - 1)
    return mk_int(w, signed, tuple((u >> i) & 1 for i in range(w)), term=term)


def top_int(w, signed=False, term=None):
    return mk_int(w, signed, None, term=term)


def sym_int(vars_, name, w, signed=False, term=None):
    if term is None:
        term = ("sym", name, len(vars_.names))
    return mk_int(w, signed, tuple(vars_.fresh("%s.%d" % (name, i)) for i in range(w)), term=term)


def is_int(v):
    return isinstance(v, tuple) and v and v[0] == "int"


def int_const(v):
    """concrete value or None"""
    if is_int(v) and v[4] == v[5]:
        return v[4]
    return None


def bits_of(v):
    if v[3] is not None:
        return v[3]
    return (TOPBIT,) * v[1]


def with_term(v, term):
    return v[:6] + (term,)


def bxor(a, b):
    if a == TOPBIT or b == TOPBIT:
        return TOPBIT
    return a ^ b


def band(a, b):
    if a == 0 or b == 0:
        return 0
    if a == 1:
        return b
    if b == 1:
        return a
    if a == TOPBIT or b == TOPBIT:
        return TOPBIT
    if a == b:
        return a
    return TOPBIT


def bor(a, b):
    if a == 1 or b == 1:
        return 1
    if a == 0:
        return b
    if b == 0:
        return a
    if a == TOPBIT or b == TOPBIT:
        return TOPBIT
    if a == b:
        return a
    return TOPBIT


def bnot(a):
    if a == TOPBIT:
        return TOPBIT
    return a ^ 1


def _umax(w):
    return (1 << w) - 1


def cast_int(v, w, signed):
    """IntToInt cast (truncate / zero- or sign-extend)."""
    sw, ssigned = v[1], v[2]
    bits = bits_of(v)
    if w <= sw:
        nb = bits[:w]
    else:
        ext = bits[sw - 1] if ssigned else 0
        nb = bits + (ext,) * (w - sw)
    lo = hi = None
    if not ssigned and not signed and w >= sw:
        lo, hi = v[4], v[5]
    elif not ssigned and not signed and v[5] <= _umax(w):
        lo, hi = v[4], v[5]
    elif ssigned == signed and w >= sw:
        lo, hi = v[4], v[5]
    elif signed and not ssigned and v[5] < (1 << (w - 1)):
        lo, hi = v[4], v[5]
    elif ssigned and not signed and v[4] >= 0 and v[5] <= _umax(w):
        lo, hi = v[4], v[5]
    term = v[6] if (lo is not None) else None
    return mk_int(w, signed, nb, lo, hi, term)


def int_binop(op, a, b, vars_=None):
    """Wrapping binary op on equal-width ints. Returns Int."""
    w, signed = a[1], a[2]
    ca, cb = int_const(a), int_const(b)
    mod = 1 << w

    def wrap(x):
        x &= mod - 1
        if signed and x >> (w - 1):
            x -= mod
        return x

    if op in ("BitXor", "BitAnd", "BitOr"):
        f = {"BitXor": bxor, "BitAnd": band, "BitOr": bor}[op]
        nb = tuple(f(x, y) for x, y in zip(bits_of(a), bits_of(b)))
        lo = hi = None
        if not signed and op == "BitAnd":
            hi = min(a[5], b[5])
        if not signed and op == "BitOr":
            lo = max(a[4], b[4])
        return mk_int(w, signed, nb, lo, hi)
    if op in ("Shl", "Shr", "ShlUnchecked", "ShrUnchecked"):
        if cb is None:
            return top_int(w, signed)
        n = cb % w if cb >= 0 else 0
        bits = bits_of(a)
        if op.startswith("Shl"):
            nb = (0,) * n + bits[: w - n]
            lo = hi = None
            if not signed and a[5] << n <= _umax(w):
                lo, hi = a[4] << n, a[5] << n
            return mk_int(w, signed, nb, lo, hi)
        fill = bits[w - 1] if signed else 0
        nb = bits[n:] + (fill,) * n
        lo = hi = None
        if not signed:
            lo, hi = a[4] >> n, a[5] >> n
        return mk_int(w, signed, nb, lo, hi)
    if ca is not None and cb is not None:
        if op in ("Add", "AddUnchecked"):
            return const(wrap(ca + cb), w, signed)
        if op in ("Sub", "SubUnchecked"):
            return const(wrap(ca - cb), w, signed)
        if op in ("Mul", "MulUnchecked"):
            return const(wrap(ca * cb), w, signed)
        if op == "Div" and cb != 0:
            q = abs(ca) // abs(cb)
            if (ca < 0) != (cb < 0):
                q = -q
            return const(wrap(q), w, signed)
        if op == "Rem" and cb != 0:
            r = abs(ca) % abs(cb)
            if ca < 0:
                r = -r
            return const(wrap(r), w, signed)
    if signed:
        # keep it simple for signed non-constant arithmetic
        if op in ("Add", "AddUnchecked"):
            lo, hi = a[4] + b[4], a[5] + b[5]
        elif op in ("Sub", "SubUnchecked"):
            lo, hi = a[4] - b[5], a[5] - b[4]
        else:
            return top_int(w, signed)
        if lo >= -(1 << (w - 1)) and hi <= (1 << (w - 1)) - 1:
            return mk_int(w, signed, None, lo, hi)
        return top_int(w, signed)
    # unsigned
    bits = None
    if op in ("Add", "AddUnchecked"):
        lo, hi = a[4] + b[4], a[5] + b[5]
        # bitwise: if no position has both bits possibly 1 -> add == or (no carries)
        ba, bb = bits_of(a), bits_of(b)
        if all(x == 0 or y == 0 for x, y in zip(ba, bb)):
            bits = tuple(bor(x, y) for x, y in zip(ba, bb))
        else:
            # low known-zero bits survive
            tz = 0
            while tz < w and ba[tz] == 0 and bb[tz] == 0:
                tz += 1
            if tz:
                bits = (0,) * tz + (TOPBIT,) * (w - tz)
        if hi > _umax(w):
            return mk_int(w, False, bits)
        return mk_int(w, False, bits, lo, hi)
    if op in ("Sub", "SubUnchecked"):
        lo, hi = a[4] - b[5], a[5] - b[4]
        if lo < 0:
            return top_int(w, False)
        return mk_int(w, False, None, lo, hi)
    if op in ("Mul", "MulUnchecked"):
        lo, hi = a[4] * b[4], a[5] * b[5]
        k = cb if cb is not None else ca
        other = a if cb is not None else b
        if k is not None and k > 0 and (k & (k - 1)) == 0:
            n = k.bit_length() - 1
            ob = bits_of(other)
            bits = (0,) * n + ob[: w - n]
        if hi > _umax(w):
            return mk_int(w, False, bits)
        return mk_int(w, False, bits, lo, hi)
    if op == "Div":
        if b[4] == 0:
            return top_int(w, False)
        lo, hi = a[4] // b[5], a[5] // b[4]
        if cb is not None and (cb & (cb - 1)) == 0:
            n = cb.bit_length() - 1
            ob = bits_of(a)
            bits = ob[n:] + (0,) * n
        return mk_int(w, False, bits, lo, hi)
    if op == "Rem":
        if b[4] == 0:
            return top_int(w, False)
        if cb is not None and (cb & (cb - 1)) == 0:
            n = cb.bit_length() - 1
            ob = bits_of(a)
            bits = ob[:n] + (0,) * (w - n)
            return mk_int(w, False, bits, None, min(a[5], cb - 1))
        return mk_int(w, False, None, 0, min(a[5], b[5] - 1))
    return top_int(w, signed)


def int_overflows(op, a, b):
    """Tri-state overflow of op in the ideal integers: 0 (never), 1 (always), None (maybe)."""
    w, signed = a[1], a[2]
    if signed:
        tlo, thi = -(1 << (w - 1)), (1 << (w - 1)) - 1
    else:
        tlo, thi = 0, _umax(w)
    if op == "Add":
        lo, hi = a[4] + b[4], a[5] + b[5]
    elif op == "Sub":
        lo, hi = a[4] - b[5], a[5] - b[4]
    elif op == "Mul":
        c = [a[4] * b[4], a[4] * b[5], a[5] * b[4], a[5] * b[5]]
        lo, hi = min(c), max(c)
    else:
        return None
    if lo >= tlo and hi <= thi:
        return 0
    if hi < tlo or lo > thi:
        return 1
    return None


def int_cmp(op, a, b):
    """Comparison -> bool Int (w=1). Uses intervals and, for Eq/Ne, bit forms."""
    ca, cb = int_const(a), int_const(b)
    if ca is not None and cb is not None:
        r = {"Eq": ca == cb, "Ne": ca != cb, "Lt": ca < cb, "Le": ca <= cb, "Gt": ca > cb, "Ge": ca >= cb}[op]
        return const(int(r), 1)
    if op in ("Eq", "Ne"):
        if a[5] < b[4] or b[5] < a[4]:
            return const(0 if op == "Eq" else 1, 1)
        # symbolic: x == c where exactly the differing bits are affine
        ba, bb = bits_of(a), bits_of(b)
        diffs = [bxor(x, y) for x, y in zip(ba, bb)]
        if any(d == 1 for d in diffs):
            return const(0 if op == "Eq" else 1, 1)
        nz = [d for d in diffs if d != 0]
        if len(nz) == 1 and nz[0] != TOPBIT:
            # equal iff that single form is 0
            f = nz[0]
            return mk_int(1, False, (f ^ 1,) if op == "Eq" else (f,))
        if not nz:
            return const(1 if op == "Eq" else 0, 1)
        return top_int(1)
    # an unsigned value against a power of two that is its top bit's weight: the comparison is that bit
    # (x >= 0x80 for a u8 is bit 7; x < 0x80 its complement) - exact on bit forms
    if not a[2] and not b[2] and a[1] == b[1]:
        w = a[1]
        top = 1 << (w - 1)
        if cb is not None and ca is None:
            ba = bits_of(a)
            if ba[w - 1] != TOPBIT:
                if op == "Ge" and cb == top or op == "Gt" and cb == top - 1:
                    return mk_int(1, False, (ba[w - 1],))
                if op == "Lt" and cb == top or op == "Le" and cb == top - 1:
                    return mk_int(1, False, (ba[w - 1] ^ 1,))
        if ca is not None and cb is None:
            bb_ = bits_of(b)
            if bb_[w - 1] != TOPBIT:
                if op == "Le" and ca == top or op == "Lt" and ca == top - 1:
                    return mk_int(1, False, (bb_[w - 1],))
                if op == "Gt" and ca == top or op == "Ge" and ca == top - 1:
                    return mk_int(1, False, (bb_[w - 1] ^ 1,))
    if op == "Lt":
        if a[5] < b[4]:
            return const(1, 1)
        if a[4] >= b[5]:
            return const(0, 1)
    if op == "Le":
        if a[5] <= b[4]:
            return const(1, 1)
        if a[4] > b[5]:
            return const(0, 1)
    if op == "Gt":
        return int_cmp("Lt", b, a)
    if op == "Ge":
        return int_cmp("Le", b, a)
    return top_int(1)


def refine_cmp(op, a, b, truth):
    """Refine intervals of a and b under (a op b) == truth. Returns (a', b') or None if infeasible."""
    if not truth:
        op = {"Eq": "Ne", "Ne": "Eq", "Lt": "Ge", "Ge": "Lt", "Le": "Gt", "Gt": "Le"}[op]
    alo, ahi, blo, bhi = a[4], a[5], b[4], b[5]
    if op == "Eq":
        lo, hi = max(alo, blo), min(ahi, bhi)
        if lo > hi:
            return None
        return _with_range(a, lo, hi), _with_range(b, lo, hi)
    if op == "Ne":
        if alo == ahi == blo == bhi:
            return None
        if blo == bhi:
            if alo == blo:
                alo += 1
            if ahi == blo:
                ahi -= 1
        if alo == ahi:
            if blo == alo:
                blo += 1
            if bhi == alo:
                bhi -= 1
        if alo > ahi or blo > bhi:
            return None
        return _with_range(a, alo, ahi), _with_range(b, blo, bhi)
    if op == "Lt":
        ahi = min(ahi, bhi - 1)
        blo = max(blo, alo + 1)
    elif op == "Le":
        ahi = min(ahi, bhi)
        blo = max(blo, alo)
    elif op == "Gt":
        alo = max(alo, blo + 1)
        bhi = min(bhi, ahi - 1)
    elif op == "Ge":
        alo = max(alo, blo)
        bhi = min(bhi, ahi)
    if alo > ahi or blo > bhi:
        return None
    return _with_range(a, alo, ahi), _with_range(b, blo, bhi)


def _with_range(v, lo, hi):
    return mk_int(v[1], v[2], v[3], lo, hi, v[6])


# ---- other values -----------------------------------------------------------------------------------
TOP = ("top",)
UNIT = ("agg", "tuple", None, None, ())


def agg(kind, name, variant, fields):
    return ("agg", kind, name, variant, tuple(fields))


def is_agg(v):
    return isinstance(v, tuple) and v and v[0] == "agg"


def arr(elems):
    return ("arr", tuple(elems))


def ptr(frame, local, proj=(), win=None, mut=False):
    return ("ptr", frame, local, tuple(proj), win, mut)


def is_ptr(v):
    return isinstance(v, tuple) and v and v[0] == "ptr"


def is_top(v):
    return v == TOP or v is None


def join(a, b):
    """Least upper bound (used rarely: merging return values of forks)."""
    if a == b:
        return a
    if is_int(a) and is_int(b) and a[1] == b[1]:
        ba, bb = bits_of(a), bits_of(b)
        nb = tuple(x if x == y else TOPBIT for x, y in zip(ba, bb))
        return mk_int(a[1], a[2], nb, min(a[4], b[4]), max(a[5], b[5]))
    if is_agg(a) and is_agg(b) and a[1:4] == b[1:4] and len(a[4]) == len(b[4]):
        return agg(a[1], a[2], a[3], [join(x, y) for x, y in zip(a[4], b[4])])
    return TOP
