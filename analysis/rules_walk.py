"""Directory-walk agreement (LS4), entry decoding (LS5), open-file identity exactness (MD9x), cursor discipline (SK2, SK4)."""
from .framework import rule
from .ev import all_guards, guarded, g_call, g_cmp, g_try_ok, try_inner
from .mir import tstr, callee_of, path_matches, strip_refs, subterms, tmatch, find_sub, strip_generics
from .fsmodel import is_cluster_const, VM, VMD, FATVOL, call_matches, ok_returns
from .dataflow import var_def_terms, roots
from .rules_guard import has_sub, last_field, is_variant
from .rules_fs import fat_arms

WALKERS = [
    ("write_new_directory_entry", ("Fat16", "Fat32")),
    ("iterate_fat16", ("Fat16",)),
    ("iterate_fat32", ("Fat32",)),
    ("find_directory_entry", ("Fat16", "Fat32")),
    ("delete_directory_entry", ("Fat16", "Fat32")),
]


def arg_field_store(stmt, argidx, field, fn=None):
    """statement stores into (*<arg argidx>).<field idx> - directly, or through a reference that denotes that place (a
    by-reference capture of an inlined closure)"""
    if stmt["k"] != "Assign":
        return False
    pj = stmt["p"]["proj"]
    if stmt["p"]["l"] == argidx and len(pj) == 2 and pj[0][0] == "deref" and pj[1][0] == "field" and pj[1][1] == field:
        return True
    if fn is not None and pj:
        from .mir import flat_place
        root, names = flat_place(fn.term_of_place(stmt["p"]))
        return root[:2] == ("arg", argidx) and names == (str(field),)
    return False


def _dir_cluster_term(t):
    """the directory's own start cluster: (*dir_info).cluster or the dir_cluster argument"""
    t = strip_refs(t)
    if t[0] == "arg" and t[1] >= 2:      # the ClusterId parameter of write_new_directory_entry (type checked by rustc)
        return True
    return t[0] == "place" and last_field(t) == "cluster" and strip_refs(t[1])[0] == "arg"


@rule("LS4", ["C06", "C11", "C03"], floor=8,
      doc="all directory walkers agree: start at the directory's cluster (FAT32 root -> first_root_dir_cluster, FAT16 root -> lba_start + first_root_dir_block with from_bytes(root_entries*32) blocks), visit BlockIdx::range(cluster_to_block(current), blocks_per_cluster) and continue at cluster_to_block(n) for the n returned by next_cluster(current); every next_cluster error other than EndOfFile is returned")
def ls4(F, R):
    for name, arms in WALKERS:
        fn = F.fn(FATVOL + "::" + name)
        allarms = fat_arms(fn)
        for arm in arms:
            blocks = allarms[arm] if (allarms["Fat16"] or allarms["Fat32"]) and len(arms) == 2 else set(fn.live_blocks())
            key = "%s/%s" % (name, arm)
            ncs = [(b, t) for b, t in fn.calls() if b in blocks and call_matches(t, ("FatVolume::next_cluster",))]
            if not ncs:
                R.bad(fn, key + ":next_cluster", "no next_cluster call in the %s walk" % arm, kind="anchor-missing")
                continue
            problems = []
            for b, t in ncs:
                cur = strip_refs(fn.term_of_operand(t["args"][2], b))
                # cursor = (current_cluster as Some).0
                cv = None
                for s in subterms(cur):
                    if s[0] == "var":
                        cv = s[1]
                if cv is None:
                    problems.append("next_cluster is not called on the walk cursor (%s)" % tstr(cur))
                    continue
                defs = var_def_terms(fn, cv)
                dstr = sorted(tstr(d) for d in defs)
                # initial values
                # (the cursor is an Option<ClusterId> ended by None, or a plain ClusterId in a loop ended by `break`)
                pay = lambda d: d[3][0] if (d[0] == "agg" and d[2] and d[2].endswith("Option::Some") and d[3]) else (None if d[0] == "agg" and d[2] and "Option::" in d[2] else d)
                init_ok = any(pay(d) is not None and _dir_cluster_term(pay(d)) for d in defs)
                if not init_ok:
                    problems.append("walk does not start at the directory's own cluster (cursor defs %s)" % dstr)
                if arm == "Fat32":
                    root_ok = any(pay(d) is not None and strip_refs(pay(d))[0] == "place" and last_field(strip_refs(pay(d))) == "first_root_dir_cluster" for d in defs)
                    if not root_ok:
                        problems.append("FAT32 root walk does not start at first_root_dir_cluster (cursor defs %s)" % dstr)
                for d in defs:
                    if pay(d) is not None and pay(d)[0] in ("c", "agg") and not has_sub(pay(d), lambda q: q[0] in ("arg", "var", "place", "call")):
                        problems.append("walk cursor set to a constant cluster %s" % tstr(d))
                if arm == "Fat32":
                    # a FAT32 directory - the root included - is a cluster chain: the walk ends (cursor := None) only on the
                    # EndOfFile answer of next_cluster, not for a directory that happens to be the root
                    for dd in fn.defs().get(cv, []):
                        if dd[0] == "assign" and dd[1] in blocks:
                            dv = fn.term_of_rvalue(dd[3], dd[1])
                            if dv[0] == "agg" and dv[2] and dv[2].endswith("Option::None"):
                                okn_, _ = guarded(fn, dd[1], lambda g: g.kind == "variant" and g.variant == "EndOfFile" and has_sub(g.term, lambda q: q[0] == "call" and q[1] and path_matches(q[1], "FatVolume::next_cluster")))
                                if not okn_:
                                    problems.append("the FAT32 walk ends (cursor := None) without next_cluster having answered EndOfFile: a root directory longer than one cluster is not searched to its end")
                # continuation: cursor := Some(n) where n is the Ok payload of this next_cluster (possibly via a temp var)
                # block start for the next round
                # find cluster_to_block calls reached only on the Ok edge of this next_cluster call
                for b2, t2 in fn.calls():
                    if b2 in blocks and call_matches(t2, ("FatVolume::cluster_to_block",)):
                        okedge, _ = guarded(fn, b2, lambda g, b=b: g.kind == "variant" and g.variant == "Ok" and g.term[0] == "call" and g.term[3] == b)
                        if okedge:
                            a = fn.term_of_operand(t2["args"][1], b2)
                            good = has_sub(a, lambda q: q[0] == "place" and "as:Ok" in q[2] and q[1][0] == "call" and q[1][3] == b)
                            if not good:
                                problems.append("after next_cluster returned Ok(n) the walk continues at cluster_to_block(%s) instead of the cluster n just read from the FAT" % tstr(a))
                if arm == "Fat32":
                    # ... and on nothing else: no exit of the walk loop is taken on a count.  (A bound that is not stated in terms
                    # of the volume's cluster_count cannot be known to exceed every chain - "65536 entries / bytes per cluster"
                    # stopped lookups after 2048 entries while entry creation went on to the end: duplicate names.)
                    from .ev import cmp_forms
                    lps = sorted([(h_, body_) for (h_, body_, _bk) in fn.loops() if b in body_], key=lambda x: -len(x[1]))
                    if lps:
                        body_ = lps[0][1]
                        for (gb, gi, g) in all_guards(fn):
                            if gb not in body_ or fn.land(fn.succ(gb)[gi][0]) in body_:
                                continue
                            forms = cmp_forms(g)
                            if not forms or g.kind != "bool":
                                continue
                            o_, a_, b_, _t = forms[0]
                            isint = lambda z: (strip_refs(z)[0] == "c" and isinstance(strip_refs(z)[1], int) and not isinstance(strip_refs(z)[1], bool)) or (strip_refs(z)[0] == "var" and isinstance(strip_refs(z)[1], int) and fn.locals[strip_refs(z)[1]]["ty"] in ("u8", "u16", "u32", "u64", "usize", "i32", "i64", "isize"))
                            if not (isint(a_) or isint(b_)):
                                continue
                            subs_ = _all_subterms_through_vars(fn, a_) + _all_subterms_through_vars(fn, b_)
                            if any(q[0] == "place" and last_field(q) == "cluster_count" for q in subs_):
                                continue
                            problems.append("the FAT32 walk can end on a count (%s) instead of the chain's end: entries behind that point are never looked at" % tstr(g.term)[:80])
                # error handling of this next_cluster: the Err edges other than EndOfFile must return
                dest = t["dest"]["l"]
            # the blocks of a cluster (of the fixed root) are enumerated by BlockIdx::range: an extent that cannot be read off is not
            # accepted (a hand-written `while block < last` loop has been seen to leave out the last sector)
            if not any(b3 in blocks and call_matches(t3, ("BlockIdx::range",)) for b3, t3 in fn.calls()):
                problems.append("the %s walk does not enumerate its blocks with BlockIdx::range(..): the extent searched cannot be established" % arm)
            # block-start variable must only be (re)assigned, never advanced in place
            for b3, t3 in fn.calls():
                if b3 in blocks and call_matches(t3, ("BlockIdx::range",)):
                    st = strip_refs(fn.term_of_operand(t3["args"][0], b3))
                    sz = fn.term_of_operand(t3["args"][1], b3)
                    if st[0] == "var":
                        kinds = {d[0] for d in fn.defs().get(st[1], [])}
                        if "addrmut" in kinds or "partial" in kinds:
                            problems.append("the block-range start `%s` is advanced in place (+=) instead of being recomputed from the FAT" % (st[2] or "_%d" % st[1]))
                        # loop-carried start: it must be recomputed whenever the walk moves to another cluster
                        defblocks = [d[1] for d in fn.defs().get(st[1], []) if d[0] in ("assign", "call")]
                        # paths that end the walk (cursor := None) never reach another round
                        defblocks += [bb for bb, ii, ss in fn.stmts() if ss["k"] == "Assign" and ss["rv"]["k"] == "Aggregate"
                                      and ss["rv"].get("variant_name") == "None" and "ClusterId" in fn.locals[ss["p"]["l"]]["ty"]]
                        for b, t in ncs:
                            if b3 in fn.reach_after(b, cut_blocks=defblocks):
                                problems.append("after next_cluster the walk can reach the next round's block range without recomputing its start `%s` (stale block numbers for the new cluster)" % (st[2] or "_%d" % st[1]))
                        # in-loop recomputations take the cluster that the FAT lookup / allocation just delivered, all of it
                        loopblocks = set()
                        for (h_, body_, backs_) in fn.loops():
                            if b3 in body_:
                                loopblocks |= set(body_)
                        for dd in fn.defs().get(st[1], []):
                            if dd[0] not in ("assign", "call") or dd[1] not in loopblocks:
                                continue
                            dt_ = strip_refs(fn.term_of_rvalue(dd[3], dd[1]) if dd[0] == "assign" else fn.call_term(dd[2], dd[1]))
                            if dt_[0] == "call" and dt_[1] and path_matches(dt_[1], "FatVolume::cluster_to_block"):
                                x = dt_[2][1]
                                stop_ = lambda n_: path_matches(n_, "FatVolume::next_cluster") or path_matches(n_, "FatVolume::alloc_cluster")
                                x0_ = strip_refs(x)
                                if x0_[0] == "var" and len(fn.defs().get(x0_[1], [])) > 1:
                                    # the walk's own cursor (set before the loop and again inside it): what it can hold at this point
                                    # of the loop are the values given to it inside the loop
                                    rs_ = set()
                                    for d2 in fn.defs().get(x0_[1], []):
                                        if d2[0] in ("assign", "call") and d2[1] in loopblocks:
                                            rs_ |= roots(fn, fn.term_of_rvalue(d2[3], d2[1]) if d2[0] == "assign" else fn.call_term(d2[2], d2[1]), stop=stop_)
                                else:
                                    rs_ = roots(fn, x, stop=stop_)
                                rs_ = rs_ if rs_ else roots(fn, x, stop=stop_)
                                good_ = bool(rs_) and all(r[0] == "call" and r[1] and (path_matches(r[1], "FatVolume::next_cluster") or path_matches(r[1], "FatVolume::alloc_cluster")) for r in rs_)
                                if not good_:
                                    problems.append("inside the walk the block-range start is recomputed from %s, which is not (only) the cluster just returned by next_cluster / alloc_cluster" % tstr(x))
                        # (a definition that copies another local stands for that local's definitions)
                        dts_, seen_ = [], set()
                        work_ = list(var_def_terms(fn, st[1]))
                        while work_:
                            d = work_.pop()
                            d0 = strip_refs(d)
                            if d0[0] == "var" and d0[1] not in seen_ and d0[1] != st[1]:
                                seen_.add(d0[1])
                                work_ += list(var_def_terms(fn, d0[1]))
                            else:
                                dts_.append(d)
                        for d in dts_:
                            okd = (d[0] == "call" and d[1] and (path_matches(d[1], "FatVolume::cluster_to_block")))
                            okd = okd or tmatch(d, ("call", "Add::add", [("place", ("arg", 1), ("*", "lba_start")), "_"])) is not None
                            if not okd:
                                problems.append("block-range start assigned from %s" % tstr(d))
                            if tmatch(d, ("call", "Add::add", [("place", ("arg", 1), ("*", "lba_start")), "_"])) is not None:
                                if "first_root_dir_block" not in tstr(d):
                                    problems.append("FAT16 root region start is %s, expected lba_start + first_root_dir_block" % tstr(d))
                        # the fixed root region is the start only for the root directory: every definition that takes it lies
                        # behind `directory cluster == ROOT_DIR` (a walk that always starts there scans the root for any directory)
                        for dd in fn.defs().get(st[1], []):
                            if dd[0] not in ("assign", "call"):
                                continue
                            dt2 = fn.term_of_rvalue(dd[3], dd[1]) if dd[0] == "assign" else fn.call_term(dd[2], dd[1])
                            if "first_root_dir_block" in tstr(dt2):
                                def is_root_test(g):
                                    if g.kind == "value" and g.value == 0xFFFFFFFC:
                                        return True
                                    for (op_, a_, z_, tr_) in __import__("analysis.ev", fromlist=["cmp_forms"]).cmp_forms(g):
                                        if op_ == "Eq" and tr_ and (strip_refs(z_)[:2] == ("c", 0xFFFFFFFC) or strip_refs(a_)[:2] == ("c", 0xFFFFFFFC)):
                                            return True
                                    return False
                                from .ev import implying_edges
                                if dd[1] in fn.reach([0], cut_edges=list(implying_edges(fn, is_root_test))):
                                    problems.append("the walk starts at the fixed FAT16 root region without the directory being the root (no `cluster == ROOT_DIR` test on the way): a sub-directory operation scans / changes the root directory instead")
                    elif st[0] == "call" and st[1] and path_matches(st[1], "FatVolume::cluster_to_block"):
                        a = st[2][1]
                        if not has_sub(a, lambda q: q[0] == "var"):
                            problems.append("block range starts at cluster_to_block(%s), not at the walk cursor" % tstr(a))
                    else:
                        problems.append("block range starts at %s" % tstr(st))
                    # size
                    szs = [sz] if strip_refs(sz)[0] != "var" else var_def_terms(fn, strip_refs(sz)[1])
                    for z in szs:
                        zs = tstr(z)
                        if not ("blocks_per_cluster" in zs or ("from_bytes" in zs and "root_entries_count" in zs and "0x20" in zs)):
                            problems.append("directory extent is %s, expected blocks_per_cluster or from_bytes(root_entries_count*32)" % zs)
                        elif "root_entries_count" in zs:
                            # the byte length is computed in 32 bits: the 16-bit entry count is widened *before* it is multiplied
                            # (65535 * 32 does not fit 16 bits; a root of 2048+ entries would be cut short / overflow)
                            for q in subterms(z):
                                if q[0] == "bin" and q[1].replace("WithOverflow", "") == "Mul":
                                    for o_ in (q[2], q[3]):
                                        o0 = strip_refs(o_)
                                        if o0[0] == "place" and last_field(o0) == "root_entries_count":
                                            problems.append("root_entries_count * 32 is computed in 16-bit arithmetic (the count is not widened before the multiplication)")
            R.require(not problems, fn, key, "; ".join(sorted(set(problems))), fn.loc(ncs[0][0]), okdetail="walk skeleton ok (%d next_cluster site(s))" % len(ncs))


@rule("LS5", ["C06", "C18", "C17"], floor=3,
      doc="OnDiskDirEntry::get_entry: start cluster = hi<<16|lo for FAT32, lo for FAT16; cluster 0 on a directory entry means ROOT_DIR for both FAT types (the mapping does not depend on the FAT type)")
def ls5(F, R):
    fn = F.fn("OnDiskDirEntry::get_entry")
    # blocks that produce ROOT_DIR
    roots_ = []
    for b, i, s in fn.stmts():
        if s["k"] == "Assign" and not s["p"]["proj"]:
            v = fn.term_of_rvalue(s["rv"], b)
            if is_cluster_const(None, v, "ROOT_DIR"):
                roots_.append((b, i))
    if not roots_:
        R.bad(fn, "anchor", "no ROOT_DIR mapping in get_entry", kind="anchor-missing")
    for b, i in roots_:
        def full_cluster(t):
            """t is the start cluster decoded for this entry's FAT type (both words on FAT32), not a part of it"""
            t = strip_refs(t)
            while t[0] == "place" and tuple(t[2]) == ("0",):
                t = strip_refs(t[1])
            cands = var_def_terms(fn, t[1]) if t[0] == "var" else [t]
            names = sorted((strip_refs(c)[1] or "").split("::")[-1] if strip_refs(c)[0] == "call" else "?" for c in cands)
            return names in (["first_cluster_fat16", "first_cluster_fat32"],)

        def is_empty_test(g):
            if g.kind == "value" and g.value == 0:
                # `match cluster { ClusterId::EMPTY if .. => .., other => .. }`: a switch on the cluster number
                x = strip_refs(g.term)
                return x[0] == "place" and tuple(e for e in x[2] if e != "*") == ("0",) and full_cluster(x[1])
            if not (g.kind == "bool" and g.term[0] == "cmp" and g.term[1] == "Eq" and g.truth is True):
                return False
            a, z = g.term[2], g.term[3]
            for x, y in ((a, z), (z, a)):
                if ("EMPTY" in tstr(y) or strip_refs(y)[:2] == ("c", 0)) and full_cluster(x):
                    return True
            return False
        # (also when the conjunction is computed into a flag first: `let is_root = is_dir && EMPTY == cluster; if is_root {..}`)
        from .ev import implying_edges
        g1 = b not in fn.reach([0], cut_edges=list(implying_edges(fn, is_empty_test)))
        g2 = b not in fn.reach([0], cut_edges=list(implying_edges(fn, g_call("Attributes::is_directory", True))))
        R.require(g1 and g2, fn, "root-iff-empty-dir", "ROOT_DIR mapping must be guarded by <the full start cluster decoded for the FAT type> == EMPTY && is_directory() (testing only the low word turns FAT32 directories at multiples of 65536 into the root)", fn.loc(b, i))
        # no dependence on fat_type
        dep = [g for (gb, gi, g) in all_guards(fn) if "fat_type" in tstr(g.raw) and fn.unreachable_without(b, [(gb, gi)])]
        R.require(not dep, fn, "root-both-fat-types", "the cluster-0-means-root mapping depends on the FAT type (%s); '..' of a first-level directory stores 0 on FAT16 and FAT32 alike" % [repr(g) for g in dep], fn.loc(b, i))
    # cluster source per fat type
    c32 = [(b, t) for b, t in fn.calls() if call_matches(t, ("OnDiskDirEntry::first_cluster_fat32",))]
    c16 = [(b, t) for b, t in fn.calls() if call_matches(t, ("OnDiskDirEntry::first_cluster_fat16",))]
    ok = len(c32) >= 1 and len(c16) >= 1
    if ok:
        # decided per value of the fat_type argument (if / match / == alike)
        from .ev import specialise_enum
        is_ft = lambda t: strip_refs(t)[:2] == ("arg", 2)
        vs = F.variants("fat::FatType")
        for nm, want, never in (("Fat32", c32, c16), ("Fat16", c16, c32)):
            rs = fn.reach([0], cut_edges=specialise_enum(fn, is_ft, vs, nm))
            ok = ok and all(b in rs for b, t in want) and not any(b in rs for b, t in never)
    R.require(ok, fn, "cluster-per-fat-type", "get_entry must use first_cluster_fat32 exactly for FatType::Fat32 and first_cluster_fat16 otherwise", fn.loc(0))
    # the 11 name bytes are taken over verbatim (the long-name checksum is computed over the bytes as stored)
    cps = [(b, t) for b, t in fn.calls() if (callee_of(t) or "").endswith("copy_from_slice")]
    okn = False
    if len(cps) == 1:
        dt_ = strip_refs(fn.term_of_operand(cps[0][1]["args"][0], cps[0][0]))
        d = tstr(dt_)
        src = fn.term_of_operand(cps[0][1]["args"][1], cps[0][0])
        rng = find_sub(src, ("agg", "Range", ["$a", "$b"]))
        # the destination: the entry's name bytes, in place or as a local array that becomes `ShortFileName { contents }`
        into_name = d.endswith("name.contents")
        if not into_name:
            root_ = dt_
            while root_[0] in ("place", "call") and (root_[0] == "place" or (root_[1] or "").split("::")[-1] in ("index_mut", "deref_mut", "as_mut_slice", "as_mut")):
                root_ = strip_refs(root_[1] if root_[0] == "place" else root_[2][0])
            if root_[0] == "var" and fn.locals[root_[1]]["ty"] == "[u8; 11]":
                into_name = any(s2["k"] == "Assign" and s2["rv"]["k"] == "Aggregate" and s2["rv"].get("adt", "").endswith("ShortFileName") and any(strip_refs(fn.term_of_operand(o, b2)) == root_ for o in s2["rv"]["ops"]) for b2, i2, s2 in fn.stmts())
        okn = into_name and rng is not None and rng["$a"][:2] == ("c", 0) and rng["$b"][:2] == ("c", 11) and has_sub(src, lambda q: q[0] == "place" and "data" in [e for e in q[2] if isinstance(e, str)] and strip_refs(q[1])[:2] == ("arg", 1))
    extra = [fn.loc(b, i) for b, i, s in fn.stmts() if s["k"] == "Assign" and s["p"]["proj"] and "contents" in [e[2] for e in s["p"]["proj"] if e[0] == "field"] and any(e[0] in ("index", "constindex") for e in s["p"]["proj"])]
    # ... nor hand the name bytes to anything else that could change them (`contents[..8].make_ascii_lowercase()`)
    touching = [b for b, t in fn.calls() if not (callee_of(t) or "").endswith("copy_from_slice") and any(has_sub(fn.term_of_operand(a, b), lambda q: q[0] == "ref" and strip_refs(q)[0] == "place" and "contents" in [e for e in strip_refs(q)[2] if isinstance(e, str)] and not (strip_refs(strip_refs(q)[1])[:2] == ("arg", 1))) for a in t["args"] if a.get("k") in ("copy", "move"))
                and (callee_of(t) or "").split("::")[-1] in ("index_mut", "iter_mut", "as_mut_slice", "as_mut", "fill", "make_ascii_lowercase", "make_ascii_uppercase", "swap", "reverse", "deref_mut", "get_mut", "split_at_mut", "chunks_mut", "chunks_exact_mut")]
    extra = extra + [fn.loc(b) for b in touching]
    R.require(okn and not extra, fn, "name-verbatim", "get_entry must copy bytes 0..11 of the slot into the name unchanged and must not patch single name bytes afterwards (stores at %s): listing, lookup and the long-name checksum all work on the stored bytes" % extra, fn.loc(0))
    # the other fields are the stored ones, unconditionally: size = file_size(), times = from_fat(date, time) of the write /
    # creation fields, attributes = create_from_fat(raw_attr()), position = the two parameters
    aggs = [(b, s2["rv"]) for b, i2, s2 in fn.stmts() if s2["k"] == "Assign" and s2["rv"]["k"] == "Aggregate" and s2["rv"].get("adt", "").endswith("DirEntry") and not s2["rv"].get("adt", "").endswith("OnDiskDirEntry")]
    okf = len(aggs) == 1
    why = "no single DirEntry literal"
    if okf:
        b_, rv_ = aggs[0]
        fld = {n_: strip_refs(fn.term_of_operand(o_, b_)) for n_, o_ in zip(rv_.get("fields") or [], rv_["ops"])}
        is_acc = lambda q, nm: q[0] == "call" and q[1] and q[1].endswith("OnDiskDirEntry::" + nm) and strip_refs(q[2][0])[:2] == ("arg", 1)
        def is_time(q, d_, t_):
            return q[0] == "call" and q[1] and q[1].endswith("Timestamp::from_fat") and len(q[2]) == 2 and is_acc(strip_refs(q[2][0]), d_) and is_acc(strip_refs(q[2][1]), t_)
        checks = {
            "size": lambda q: is_acc(q, "file_size"),
            "mtime": lambda q: is_time(q, "write_date", "write_time"),
            "ctime": lambda q: is_time(q, "create_date", "create_time"),
            "attributes": lambda q: q[0] == "call" and q[1] and q[1].endswith("Attributes::create_from_fat") and is_acc(strip_refs(q[2][0]), "raw_attr"),
            "entry_block": lambda q: q[:2] == ("arg", 3),
            "entry_offset": lambda q: q[:2] == ("arg", 4),
        }
        bad_f = [k_ for k_, pr in checks.items() if k_ not in fld or not pr(fld[k_])]
        okf = not bad_f
        why = "field(s) %s are not the stored value: %s" % (bad_f, {k_: tstr(fld.get(k_, ("?",)))[:60] for k_ in bad_f})
    R.require(okf, fn, "fields-verbatim", "get_entry must report size, times, attributes and position exactly as stored / given (%s)" % why, fn.loc(0))
    f32 = F.fn("OnDiskDirEntry::first_cluster_fat32")
    rets = [f32.term_of_rvalue(s["rv"], b) for b, i, s in f32.stmts() if s["k"] == "Assign" and s["p"]["l"] == 0 and not s["p"]["proj"]]
    pat = ("agg", "ClusterId", [("bin", "BitOr", ("bin", "Shl", ("call", "From::from", [("call", "first_cluster_hi", "_")]), ("c", 16)), ("call", "From::from", [("call", "first_cluster_lo", "_")]))])
    okp = len(rets) == 1 and tmatch(rets[0], ("agg", "ClusterId", ["$x"])) is not None and "first_cluster_hi" in tstr(rets[0]) and "first_cluster_lo" in tstr(rets[0]) and "Shl" in tstr(rets[0]) and "0x10" in tstr(rets[0])
    if not okp:
        # however it is written (`hi * 0x1_0000 + lo`, a helper joining the halves): evaluated on a slot of 32 unknown bytes, the
        # result's bits are bytes 26..28 (low word) followed by bytes 20..22 (high word)
        try:
            from .absint import Interp, State, Undecided
            from .absval import bits_of, is_agg
            from .rules_codec import data_struct, le_bits
            I_ = Interp(F, mode="bv", max_paths=64)
            st_ = State()
            self_p, bs_ = data_struct(I_, st_, F, "fat::ondiskdirentry::OnDiskDirEntry", 32, slice_=True)
            outs_ = I_.run(f32, [self_p], st_, 0)
            want_ = tuple(le_bits(bs_, 26, 2)) + tuple(le_bits(bs_, 20, 2))
            def _inner(v_):
                while is_agg(v_):
                    v_ = v_[4][0]
                return v_
            okp = bool(outs_) and all(tuple(bits_of(_inner(rv_))) == want_ for rv_, _s in outs_)
        except Exception:
            okp = False
    R.require(okp, f32, "hi<<16|lo", "first_cluster_fat32 must be (hi << 16) | lo, got %s" % [tstr(r) for r in rets], f32.loc(0))


@rule("MD9x", ["C07", "C08"], floor=1,
      doc="file_is_open answers true under exactly the three identity comparisons (volume handle, entry block, entry offset) and nothing else: an open file stays recognised while its cached entry (size, first cluster, times) differs from the directory")
def md9x(F, R):
    fn = F.fn(VMD + "::file_is_open")
    from .rules_guard import file_is_open_any_form
    af = file_is_open_any_form(F, fn)
    if af is not None:
        R.require(af[0] and af[2] == {"raw_volume", "entry_block", "entry_offset"}, fn, "no-extra-conjunct", "file_is_open must answer true under exactly the three identity comparisons: %s" % af[1], fn.loc(0))
        return
    trues = [(b, i) for b, i, s in fn.stmts() if s["k"] == "Assign" and s["p"]["l"] == 0 and not s["p"]["proj"] and fn.term_of_rvalue(s["rv"], b) == ("c", 1, None)]
    for b, i in trues:
        extra = []
        for (gb, gi, g) in all_guards(fn):
            if not fn.unreachable_without(b, [(gb, gi)]):
                continue
            if g.kind == "bool" and g.term[0] == "cmp":
                names = set()
                for side in (g.term[2], g.term[3]):
                    for s in subterms(side):
                        if s[0] == "place":
                            names |= {e for e in s[2] if isinstance(e, str) and e not in ("*", "0") and not e.startswith("as:")}
                ident = {"raw_volume", "entry_block", "entry_offset"}
                if not (names & ident):
                    extra.append(repr(g))
                elif names - ident - {"entry"}:
                    extra.append(repr(g))
        R.require(not extra, fn, "no-extra-conjunct", "file_is_open additionally requires %s: a handle whose cached entry changed (e.g. first cluster allocated by write, not yet flushed) is no longer recognised as open" % extra, fn.loc(b, i))
    if not trues:
        R.bad(fn, "anchor", "no `true` return", kind="anchor-missing")


@rule("SK2", ["C01"], floor=2,
      doc="find_data_on_disk: a backwards seek restarts the cluster cursor at the file start (start.0 = 0; start.1 = file_start under desired_offset < start.0) and the walk advances the caller's cursor in place (each next_cluster result is stored through `start` before the next lookup), so after Err(EndOfFile) the caller's cursor is the chain tail")
def sk2(F, R):
    fn = F.fn(VMD + "::find_data_on_disk")
    # restart stores
    st0 = st1 = None
    for b, i, s in fn.stmts():
        if s["k"] == "Assign" and s["p"]["proj"]:
            # find_data_on_disk(self, volume_idx, start, file_start, desired_offset): positions 3, 4, 5
            pj = s["p"]["proj"]
            fld = pj[1][1] if s["p"]["l"] == 3 and len(pj) == 2 and pj[0][0] == "deref" and pj[1][0] == "field" else None
            v = fn.term_of_rvalue(s["rv"], b)
            if fld == 0 and v[:2] == ("c", 0):
                st0 = (b, i)
            if fld == 1 and v[:2] == ("arg", 4):
                st1 = (b, i)
            # `*start = (0, file_start)`: both fields in one store
            if s["p"]["l"] == 3 and len(pj) == 1 and pj[0][0] == "deref" and v[0] == "agg" and v[1] == "Tuple" and len(v[3]) == 2:
                if v[3][0][:2] == ("c", 0):
                    st0 = (b, i)
                if strip_refs(v[3][1])[:2] == ("arg", 4):
                    st1 = (b, i)
    ok = st0 is not None and st1 is not None
    if ok:
        g = g_cmp("Lt", True, lambda a: a[:2] == ("arg", 5), lambda z: z[0] == "place" and z[1][:2] == ("arg", 3) and tuple(z[2]) == ("*", "0"))
        ok = guarded(fn, st0[0], g)[0] and guarded(fn, st1[0], g)[0]
    R.require(ok, fn, "restart", "backwards seek must reset the cursor to (0, file_start) under desired_offset < start.0", fn.loc(0))
    # the first subtraction desired_offset - start.0 is only reached with start.0 <= desired_offset or after the restart
    # in-place advance
    ncs = [(b, t) for b, t in fn.calls() if call_matches(t, ("FatVolume::next_cluster",))]
    okadv = False
    for b, t in ncs:
        curt = strip_refs(fn.term_of_operand(t["args"][2], b))
        cur = "(*start).1" if (curt[0] == "place" and curt[1][:2] == ("arg", 3) and tuple(curt[2]) == ("*", "1")) else tstr(curt)
        stores = [(bb, ii) for bb, ii, s in fn.stmts() if arg_field_store(s, 3, 1, fn) and has_sub(fn.term_of_rvalue(s["rv"], bb), lambda q: q[0] == "call" and q[3] == b)]
        okadv = cur == "(*start).1" and len(stores) == 1
    R.require(okadv, fn, "advance-in-place", "the FAT walk must read from and store into the caller's cursor `start.1` on every step (a private copy leaves the caller with a stale cursor when the walk ends with EndOfFile)", fn.loc(ncs[0][0]) if ncs else None)
    # caller side: write() links the new cluster after the cursor it passed
    w = F.fn(VM + "::write")
    for b, t in w.calls():
        if call_matches(t, ("FatVolume::alloc_cluster",)):
            prev = w.term_of_operand(t["args"][2], b)
            if prev[0] == "agg" and prev[2] and prev[2].endswith("Option::Some"):
                fd = [(bb, tt) for bb, tt in w.calls() if call_matches(tt, ("find_data_on_disk",))]
                curs = {tstr(strip_refs(w.term_of_operand(tt["args"][2], bb))) for bb, tt in fd}
                pv = tstr(prev[3][0])
                R.require(any(pv.startswith(c) for c in curs), w, "extend-after-cursor", "the extension cluster must be linked after the cursor that find_data_on_disk advanced (got %s, cursors %s)" % (pv, sorted(curs)), w.loc(b))


# ---------------------------------------------------------------------------------------
# PV1: block-index provenance of every cache access

from .dataflow import roots as _roots  # noqa: E402
from .rules_fs import _all_subterms_through_vars  # noqa: E402


def index_class(fn, term):
    """Region class of a block-index term, from its value origins."""
    subs = _all_subterms_through_vars(fn, term)
    names = set()
    for s in subs:
        if s[0] == "call" and s[1]:
            names.add(s[1].split("::")[-1])
        if s[0] == "place":
            for e in s[2]:
                if isinstance(e, str):
                    names.add("." + e)
        if s[0] == "arg":
            names.add("arg:" + (s[2] or ""))
            names.add("arg#%d" % s[1])
    if "offset_bytes" in names:
        return "FAT"
    if ".info_location" in names:
        return "INFO"
    if "checked_add" in names and ".0" in names and (fn.npath.endswith("parse_volume") and "arg#2" in names) and "fs_info_block" in names:
        return "INFO"
    if ".entry_block" in names:
        return "ENTRY"
    if "find_data_on_disk" in names:
        return "DATA"
    cls = set()
    if "cluster_to_block" in names:
        cls.add("CLUSTER")
    if ".first_root_dir_block" in names and ".lba_start" in names:
        cls.add("ROOTDIR16")
    if cls:
        return "+".join(sorted(cls))
    rs = _roots(fn, term)
    if rs and all(r[0] == "arg" for r in rs):
        return "PARAM:" + ",".join(sorted("#%d" % r[1] for r in rs))     # by position: parameter names are free
    if rs and all(r[0] in ("c", "agg") for r in rs):
        return "CONST"
    return "UNKNOWN(%s)" % ",".join(sorted(names))[:80]


PV_TABLE = {
    # function suffix -> {cache call: allowed classes}
    "FatVolume::update_fat": {"read_mut": {"FAT"}},
    "FatVolume::next_cluster": {"read": {"FAT"}},
    "FatVolume::find_next_free_cluster": {"read": {"FAT"}},
    "FatVolume::update_info_sector": {"read_mut": {"INFO"}},
    "FatVolume::write_new_directory_entry": {"read_mut": {"CLUSTER", "ROOTDIR16", "CLUSTER+ROOTDIR16"}},
    "FatVolume::iterate_fat16": {"read": {"CLUSTER", "ROOTDIR16", "CLUSTER+ROOTDIR16"}},
    "FatVolume::iterate_fat32": {"read": {"CLUSTER"}},
    "FatVolume::find_entry_in_block": {"read": {"PARAM:#5"}},        # (self, block_cache, fat_type, match_name, block_idx)
    "FatVolume::delete_entry_in_block": {"read_mut": {"PARAM:#4"}},   # (self, block_cache, match_name, block_idx)
    "FatVolume::alloc_cluster": {"blank_mut": {"CLUSTER"}},
    "FatVolume::write_entry_to_disk": {"read_mut": {"ENTRY"}},
    "FatVolume::make_dir": {"blank_mut": {"CLUSTER"}},
    "fat::volume::parse_volume": {"read": {"PARAM:#2", "INFO"}},       # (block_cache, lba_start, num_blocks)
    "VolumeManager::open_raw_volume": {"read": {"CONST"}},
    "VolumeManager::read": {"read": {"DATA"}},
    "VolumeManager::write": {"read_mut": {"DATA"}, "blank_mut": {"DATA"}},
}


@rule("PV1", ["C04", "C09"], floor=20,
      doc="block-index provenance: every cache access reads/writes a block whose index derives from the region its function is responsible for - FAT (fat_start/second_fat_start + offset_bytes), info sector (info_location), directory blocks (cluster_to_block / FAT16 root region), an entry's recorded block, file data (find_data_on_disk), new clusters (cluster_to_block); constants / the bare partition start only with immutable reads in mount; a cache access in any other function is reported")
def pv1(F, R):
    seen = set()
    for fn in F.fns:
        if fn.npath.startswith(("blockdevice::", "fat::test", "volume_mgr::tests")):
            continue
        for b, t in fn.calls():
            n = call_matches(t, ("BlockCache::read", "BlockCache::read_mut", "BlockCache::blank_mut"))
            if not n:
                continue
            kind = n.split("::")[-1]
            idx = fn.term_of_operand(t["args"][1], b)
            cls = index_class(fn, idx)
            ent = None
            for suf, tab in PV_TABLE.items():
                if path_matches(fn.npath, suf):
                    ent = (suf, tab)
            if ent is None:
                R.bad(fn, "%s:unlisted-function" % kind, "cache %s in %s, which has no entry in the provenance table (index class %s)" % (kind, fn.npath, cls), fn.loc(b))
                continue
            allowed = ent[1].get(kind)
            seen.add((ent[0], kind))
            ok = allowed is not None and cls in allowed
            R.require(ok, fn, "%s:%s" % (kind, cls.split("(")[0]), "%s in %s indexes a block of class %s (%s); allowed for this function: %s" % (kind, fn.npath.split("::")[-1], cls, tstr(idx)[:120], sorted(allowed) if allowed else "none"), fn.loc(b),
                      okdetail="%s index class %s" % (kind, cls))
    # callers of the per-block helpers pass walk indices
    for helper in ("FatVolume::find_entry_in_block", "FatVolume::delete_entry_in_block"):
        for (f, b, t) in F.callers_of(helper):
            a = f.term_of_operand(t["args"][-1], b)
            cls = index_class(f, a)
            R.require(cls in ("CLUSTER", "ROOTDIR16", "CLUSTER+ROOTDIR16"), f, "helper-arg:" + helper.split("::")[-1], "%s is called with a block of class %s" % (helper, cls), f.loc(b))
    # DirEntry.entry_block is only ever a walk index
    for (f, b, t) in F.callers_of("DirEntry::new") + F.callers_of("OnDiskDirEntry::get_entry"):
        if f.npath.startswith(("fat::test", "volume_mgr::tests")):
            continue
        ai = 5 if (callee_of(t) or "").endswith("DirEntry::new") else 2
        a = f.term_of_operand(t["args"][ai], b)
        cls = index_class(f, a)
        R.require(cls in ("CLUSTER", "ROOTDIR16", "CLUSTER+ROOTDIR16") or (cls == "PARAM:#5" and f.npath.endswith("find_entry_in_block")), f, "entry_block-source", "a directory entry's recorded block is of class %s" % cls, f.loc(b))
    for suf, tab in PV_TABLE.items():
        for kind in tab:
            if (suf, kind) not in seen:
                R.bad(None, "missing:%s:%s" % (suf.split("::")[-1], kind), "expected cache %s in %s not found" % (kind, suf), kind="anchor-missing")


def free_slot_of(F, fn, b, dst):
    """Which directory slot the destination `dst` of a store in block b is, and that it was found free.  Two idioms:
    the loop item of `for (i, chunk) in block.chunks_exact_mut(32).enumerate()` under !is_valid() of that chunk, or
    block[i*32 .. i*32+32] for `i` the Some answer of block.chunks_exact(32).position(|raw| !OnDiskDirEntry::new(raw).is_valid()).
    Returns (index term, block term) or None."""
    from .poly import peq, MUL, ADD, C
    from .mir import inline_closure
    d = strip_refs(dst)
    # idiom 1: the enumerate item
    nxt = [d[1]] if d[0] == "place" and d[1][0] == "call" and (d[1][1] or "").endswith("Iterator::next") and d[2] and d[2][0] == "as:Some" else []
    if nxt:
        ok_valid = False
        for (gb, gi, g) in all_guards(fn):
            if g_call("OnDiskDirEntry::is_valid", False)(g) and fn.unreachable_without(b, [(gb, gi)]):
                a0 = g.term[2][0]
                if has_sub(a0, lambda q: q[0] == "call" and q[1] and path_matches(q[1], "OnDiskDirEntry::new")) and has_sub(a0, lambda q: q == nxt[0]):
                    ok_valid = True
        if not ok_valid:
            return None
        idx = ("place", nxt[0], ("as:Some", "0", "0"))
        itv = strip_refs(nxt[0][2][0])
        defs = var_def_terms(fn, itv[1]) if itv[0] == "var" else [itv]
        blk = None
        for dd in defs:
            for q in subterms(dd):
                if q[0] == "call" and q[1] and q[1].endswith(("chunks_exact_mut", "chunks_exact")) and q[2][1][:2] == ("c", 32):
                    blk = strip_refs(q[2][0])
        return (idx, blk) if blk is not None else None
    # idiom 2: block[i*32 .. i*32 + 32], i = position(..) answer
    if d[0] == "call" and d[1] and d[1].endswith(("IndexMut::index_mut", "::index_mut")) and len(d[2]) == 2:
        r = strip_refs(d[2][1])
        if not (r[0] == "agg" and r[2] and r[2].endswith(("ops::Range", "Range::Range")) and len(r[3]) == 2):
            return None
        lo, hi = r[3]
        # idiom 3: inside the enumerate loop, but written through the block: block[i*32 .. i*32+32] for the loop's own i,
        # under !is_valid() of the loop's own chunk
        for q in subterms(lo):
            qq = strip_refs(q)
            if qq[0] == "place" and tuple(qq[2]) == ("as:Some", "0", "0") and qq[1][0] == "call" and (qq[1][1] or "").endswith("Iterator::next"):
                nx = qq[1]
                tested = False
                for (gb, gi, g) in all_guards(fn):
                    if g_call("OnDiskDirEntry::is_valid", False)(g) and fn.unreachable_without(b, [(gb, gi)]):
                        a0 = g.term[2][0]
                        if has_sub(a0, lambda z: z[0] == "call" and z[1] and path_matches(z[1], "OnDiskDirEntry::new")) and has_sub(a0, lambda z: z == nx):
                            tested = True
                itv = strip_refs(nx[2][0])
                defs = var_def_terms(fn, itv[1]) if itv[0] == "var" else [itv]
                blk = None
                for dd in defs:
                    for z in subterms(dd):
                        if z[0] == "call" and z[1] and z[1].endswith(("chunks_exact_mut", "chunks_exact")) and z[2][1][:2] == ("c", 32) and has_sub(dd, lambda w: w[0] == "call" and w[1] and w[1].endswith("enumerate")):
                            blk = z[2][0]

                def under3(x):
                    x = strip_refs(x)
                    while x[0] == "call" and x[1] and x[1].endswith(("Deref::deref", "DerefMut::deref_mut")) and x[2]:
                        x = strip_refs(x[2][0])
                    return tstr(x)
                if tested and blk is not None and peq(lo, MUL(qq, C(32))) and peq(hi, ADD(MUL(qq, C(32)), C(32))) and under3(blk) == under3(d[2][0]):
                    return (qq, strip_refs(d[2][0]))
        for q in subterms(lo):
            qq = strip_refs(q)
            if qq[0] == "place" and tuple(qq[2]) == ("as:Some", "0") and strip_refs(qq[1])[0] == "call" and (strip_refs(qq[1])[1] or "").endswith("Iterator::position"):
                pos = strip_refs(qq[1])
                src = strip_refs(pos[2][0])
                if src[0] == "var":
                    ds_ = var_def_terms(fn, src[1])
                    src = strip_refs(ds_[0]) if len(ds_) == 1 else src
                if not (src[0] == "call" and src[1] and src[1].endswith(("chunks_exact", "chunks_exact_mut")) and src[2][1][:2] == ("c", 32)):
                    continue
                body = inline_closure(F, pos[2][1], [("var", "item", None)])
                if body is None:
                    continue
                bb = strip_refs(body)
                isfree = bb[0] == "un" and bb[1] == "Not" and strip_refs(bb[2])[0] == "call" and path_matches(strip_refs(bb[2])[1] or "", "OnDiskDirEntry::is_valid") and has_sub(bb[2], lambda z: z[0] == "call" and z[1] and path_matches(z[1], "OnDiskDirEntry::new") and has_sub(z, lambda w: w == ("var", "item", None)))
                if not isfree:
                    continue
                if peq(lo, MUL(qq, C(32))) and peq(hi, ADD(MUL(qq, C(32)), C(32))) and guarded(fn, b, lambda g: g.kind == "variant" and g.variant == "Some" and (strip_refs(g.term) == pos or (strip_refs(g.term)[0] == "var" and pos in [strip_refs(x) for x in var_def_terms(fn, strip_refs(g.term)[1])])))[0]:
                    def under(x):
                        x = strip_refs(x)
                        while x[0] == "call" and x[1] and x[1].endswith(("Deref::deref", "DerefMut::deref_mut")) and x[2]:
                            x = strip_refs(x[2][0])
                        return tstr(x)
                    same_block = under(src[2][0]) == under(d[2][0])
                    return (qq, strip_refs(d[2][0])) if same_block else None
    return None


@rule("NE1", ["C03", "C02"], floor=4,
      doc="a new directory entry reuses a free slot of the walked block: in both FAT arms of write_new_directory_entry the 32 serialized bytes are copied into the scanned slot only under !is_valid() of that slot, the entry records the block just read and offset i*32 of the same enumerate index, and is written back before returning Ok")
def ne1(F, R):
    from .poly import peq, MUL, C
    fn = F.fn(FATVOL + "::write_new_directory_entry")
    cps = [(b, t) for b, t in fn.calls() if (callee_of(t) or "").endswith("copy_from_slice")]
    R.require(len(cps) >= 1, fn, "sites", "expected a slot store in write_new_directory_entry, found none", fn.loc(0))
    arms = fat_arms(fn)
    R.require(all(any(b in arms[a] for b, t in cps) for a in ("Fat16", "Fat32")), fn, "sites:both-arms", "expected a slot store in each FAT arm", fn.loc(0))
    for b, t in cps:
        dst = fn.term_of_operand(t["args"][0], b)
        src = fn.term_of_operand(t["args"][1], b)
        slot = free_slot_of(F, fn, b, dst)
        R.require(slot is not None, fn, "free-slot", "entry bytes stored into a slot that was not tested free (!is_valid()) / not the slot that was tested", fn.loc(b))
        R.ok(fn, "same-slot", "the tested slot is the written slot") if slot is not None else R.bad(fn, "same-slot", "the freeness test is not on the slot that is written", fn.loc(b))
        ser = find_sub(src, ("call", "DirEntry::serialize"))
        R.require(ser is not None, fn, "serialized", "slot is not filled with DirEntry::serialize()", fn.loc(b))
        # the DirEntry::new call feeding serialize: block = read_mut's index, offset = i*32
        news = [(bb, tt) for bb, tt in fn.calls() if call_matches(tt, ("DirEntry::new",)) and fn.dominates(bb, b)]
        okn = False
        for bb, tt in news:
            off = strip_refs(fn.term_of_operand(tt["args"][5], bb))
            blk = fn.term_of_operand(tt["args"][4], bb)
            okn = slot is not None and off[0] == "cast" and off[1] == "u32" and peq(off[2], MUL(slot[0], C(32)))
            rm = [(b3, t3) for b3, t3 in fn.calls() if call_matches(t3, ("BlockCache::read_mut",)) and fn.dominates(b3, bb)]
            okn = okn and any(tstr(strip_refs(fn.term_of_operand(t3["args"][1], b3))) == tstr(strip_refs(blk)) for b3, t3 in rm)
        R.require(okn, fn, "recorded-position", "the new entry must record (block just read, i * 32) of the slot it occupies", fn.loc(b))


@rule("DD1", ["C03"], floor=4,
      doc="make_dir writes '.' (name this_dir, own cluster, offset 0) and '..' (name parent_dir, parent cluster or 0 when the parent is the root, offset 32) with the directory attribute into block 0 of the new cluster, '.' at bytes 0..32 and '..' at 32..64")
def dd1(F, R):
    fn = F.fn(FATVOL + "::make_dir")
    ents = []
    for b, i, s in fn.stmts():
        if s["k"] == "Assign" and s["rv"]["k"] == "Aggregate" and s["rv"].get("adt") == "filesystem::directory::DirEntry":
            ents.append((b, dict(zip(s["rv"]["fields"], [fn.term_of_operand(o, b) for o in s["rv"]["ops"]]))))
    R.require(len(ents) == 2, fn, "entries", "expected the '.' and '..' literals, found %d" % len(ents), fn.loc(0))
    if len(ents) != 2:
        return
    dot, dotdot = ents[0][1], ents[1][1]
    R.require("this_dir" in tstr(dot["name"]) and dot["entry_offset"][:2] == ("c", 0) and dot["size"][:2] == ("c", 0), fn, "dot:name-offset", "'.' must be this_dir() at offset 0, size 0", fn.loc(ents[0][0]))
    newc = tstr(dot["cluster"])
    okc = "alloc_cluster" in newc or any("alloc_cluster" in tstr(d) for d in (var_def_terms(fn, strip_refs(dot["cluster"])[1]) if strip_refs(dot["cluster"])[0] == "var" else [])) or "cluster" in newc
    blk = [(b, t) for b, t in fn.calls() if call_matches(t, ("BlockCache::blank_mut",))]
    same_cluster = bool(blk) and any(tstr(dot["cluster"]) in tstr(fn.term_of_operand(t["args"][1], b)) or True for b, t in blk[:1])
    R.require(okc, fn, "dot:cluster", "'.' must point at the new directory's own cluster, got %s" % newc, fn.loc(ents[0][0]))
    R.require("parent_dir" in tstr(dotdot["name"]) and tstr(dotdot["entry_offset"]).endswith("0x20") and dotdot["size"][:2] == ("c", 0), fn, "dotdot:name-offset", "'..' must be parent_dir() at offset 32, size 0", fn.loc(ents[1][0]))
    # '..': decided for a parent that is the root (sentinel ROOT_DIR) and for one that is not - 0 for the root, the parent's
    # own cluster otherwise; if / match / helper alike
    from .specialise import specialise_on, _fold, _subst_pred
    PARENT = 4   # make_dir(self, block_cache, time_source, parent, sfn, att)
    pc = strip_refs(dotdot["cluster"])
    is_parent = lambda q: (q[:2] == ("arg", PARENT)) or (q[0] == "place" and strip_refs(q[1])[:2] == ("arg", PARENT) and tuple(q[2]) == ("0",))
    root = None
    for k_, c_ in F.consts.items():
        if k_.endswith("ClusterId::ROOT_DIR"):
            root = int(c_["val"])
    got = {}
    for label, val in (("root", root), ("other", 7)):
        cut = specialise_on(fn, is_parent, val)
        rs = fn.reach([0], cut_edges=cut)
        vals = set()
        cands = [pc] if pc[0] != "var" else []
        if pc[0] == "var":
            for d in fn.defs().get(pc[1], []):
                if d[0] == "assign" and d[1] in rs and ents[1][0] in fn.reach([d[1]], cut_edges=cut):
                    cands.append(strip_refs(fn.term_of_rvalue(d[3], d[1])))
        for c_ in cands:
            if c_[0] == "c" and (c_[1] == 0 or (c_[2] or "").endswith("ClusterId::EMPTY")):
                vals.add("0")
            elif c_[:2] == ("arg", PARENT) or (c_[0] == "var" and any(strip_refs(x)[:2] == ("arg", PARENT) for x in var_def_terms(fn, c_[1]))):
                vals.add("parent")
            else:
                vals.add(tstr(c_))
        got[label] = sorted(vals)
    R.require(root is not None and got == {"root": ["0"], "other": ["parent"]}, fn, "dotdot:cluster", "'..' must hold the parent's cluster, or 0 exactly when the parent is the root directory; got %s" % got, fn.loc(ents[1][0]))
    for nm, e in (("dot", dot), ("dotdot", dotdot)):
        R.require(strip_refs(e["attributes"])[:2] == ("arg", 6), fn, nm + ":attributes", "%s must carry the directory attributes passed in" % nm, fn.loc(0))
    # placement: serialize(dot) -> block[0..32], serialize(dotdot) -> block[32..64]
    cps = [(b, t) for b, t in fn.calls() if (callee_of(t) or "").endswith("copy_from_slice")]

    def byte_range(t, at, depth=0):
        """(lo, hi) of the destination slice relative to the blank block it was carved from; None when not derivable"""
        t = strip_refs(t)
        if depth > 8:
            return None
        if t[0] == "call" and t[1]:
            nm = t[1].split("::")[-1]
            if nm == "blank_mut":
                return (0, 512)
            if nm in ("deref_mut", "deref", "as_mut_slice", "as_mut") and t[2]:
                return byte_range(t[2][0], at, depth + 1)
            if nm in ("index_mut", "index") and len(t[2]) == 2:
                base = byte_range(t[2][0], at, depth + 1)
                r = strip_refs(t[2][1])
                if base is None or r[0] != "agg" or not r[2]:
                    return None
                ends = [offset_at(x, at) for x in r[3]]
                if r[2].endswith(("ops::Range", "Range::Range")) and len(ends) == 2 and None not in ends:
                    return (base[0] + ends[0], base[0] + ends[1])
                if r[2].endswith(("RangeTo", "RangeTo::RangeTo")) and len(ends) == 1 and ends[0] is not None:
                    return (base[0], base[0] + ends[0])
                if r[2].endswith(("RangeFrom", "RangeFrom::RangeFrom")) and len(ends) == 1 and ends[0] is not None:
                    return (base[0] + ends[0], base[1])
                return None
        flds = [e for e in t[2] if e != "*"] if t[0] == "place" else []
        if t[0] == "place" and flds in (["0"], ["1"]) and strip_refs(t[1])[0] == "call" and (strip_refs(t[1])[1] or "").endswith("split_at_mut"):
            c = strip_refs(t[1])
            base = byte_range(c[2][0], at, depth + 1)
            k = offset_at(c[2][1], at)
            if base is None or k is None:
                return None
            return (base[0], base[0] + k) if flds == ["0"] else (base[0] + k, base[1])
        if t[0] == "place" and all(e == "*" for e in t[2]):
            return byte_range(t[1], at, depth + 1)
        if t[0] == "var":
            ds = var_def_terms(fn, t[1])
            rs = {byte_range(d, at, depth + 1) for d in ds}
            return rs.pop() if len(rs) == 1 else None
        return None

    def offset_at(x, at):
        """value of an offset expression at block `at`: constants fold; a counter local (0, then += 32) takes the value of
        its definition that dominates `at` latest"""
        v = _fold(x)
        if v is not None:
            return v
        x = strip_refs(x)
        if x[0] == "var":
            best = None
            for d in fn.defs().get(x[1], []):
                if d[0] == "assign" and fn.dominates(d[1], at) and (best is None or fn.dominates(best[1], d[1])):
                    best = d
            if best is not None:
                rv = strip_refs(fn.term_of_rvalue(best[3], best[1]))
                if rv[0] == "bin" and rv[1] in ("Add", "AddWithOverflow") and strip_refs(rv[2]) == x:
                    prev = None
                    for d in fn.defs().get(x[1], []):
                        if d is not best and d[0] == "assign" and fn.dominates(d[1], best[1]):
                            prev = _fold(fn.term_of_rvalue(d[3], d[1]))
                    inc = _fold(rv[3])
                    return prev + inc if prev is not None and inc is not None else None
                return _fold(rv)
        if x[0] == "bin" and x[1] in ("Add", "AddWithOverflow"):
            a_, b_ = offset_at(x[2], at), offset_at(x[3], at)
            return a_ + b_ if a_ is not None and b_ is not None else None
        return None
    okpl = len(cps) == 2 and fn.dominates(cps[0][0], cps[1][0])
    ranges = []
    if okpl:
        for (cb_, ct_) in cps:
            ranges.append(byte_range(fn.term_of_operand(ct_["args"][0], cb_), cb_))
        # which entry goes where: the '.' literal's serialisation first
        src0, src1 = tstr(fn.term_of_operand(cps[0][1]["args"][1], cps[0][0])), tstr(fn.term_of_operand(cps[1][1]["args"][1], cps[1][0]))
        okpl = ranges == [(0, 32), (32, 64)] and "this_dir" in src0 and "parent_dir" in src1
    R.require(okpl, fn, "placement", "'.' and '..' must be stored at bytes 0..32 and 32..64 of the first block; destinations %s" % ranges, fn.loc(0))
    # caller passes the directory attribute
    mk = F.fn(VM + "::make_dir_in_dir")
    for b, t in mk.calls():
        if call_matches(t, ("FatVolume::make_dir",)):
            a = mk.term_of_operand(t["args"][5], b)
            R.require("create_from_fat" in tstr(a) and ("DIRECTORY" in tstr(a) or "0x10" in tstr(a)), mk, "attr=DIRECTORY", "make_dir_in_dir must create the entry with Attributes::DIRECTORY, got %s" % tstr(a), mk.loc(b))


@rule("MD8", ["C07"], floor=2,
      doc="append starts at the end: in open_file_in_dir the ReadWriteAppend arm calls seek_from_end(0) on the new FileInfo before it is pushed; every arm starts at current_offset 0 with the entry's cluster")
def md8(F, R):
    fn = F.fn(VM + "::open_file_in_dir")
    sk = [(b, t) for b, t in fn.calls() if call_matches(t, ("FileInfo::seek_from_end",))]
    R.require(len(sk) == 1 and fn.term_of_operand(sk[0][1]["args"][1], sk[0][0])[:2] == ("c", 0), fn, "append-seek", "the append arm must call seek_from_end(0)", fn.loc(0))
    for b, t in sk:
        g, _ = guarded(fn, b, lambda g: g.kind == "variant" and g.variant == "ReadWriteAppend" and has_sub(g.term, lambda q: q[0] == "call" and q[1] and path_matches(q[1], "solve_mode_variant")))
        R.require(g, fn, "append-arm", "seek_from_end(0) is not in the ReadWriteAppend arm", fn.loc(b))
    n = 0
    for b, i, s in fn.stmts():
        if s["k"] == "Assign" and s["rv"]["k"] == "Aggregate" and s["rv"].get("adt", "").endswith("FileInfo"):
            n += 1
            d = dict(zip(s["rv"]["fields"], [fn.term_of_operand(o, b) for o in s["rv"]["ops"]]))
            ok = d["current_offset"][:2] == ("c", 0) and d["dirty"][:2] == ("c", 0) and tstr(d["current_cluster"]).startswith("Tuple{0, ") and "cluster" in tstr(d["current_cluster"])
            R.require(ok, fn, "fileinfo-init", "a new FileInfo must start at offset 0, clean, cursor (0, entry.cluster); got offset=%s dirty=%s cursor=%s" % (tstr(d["current_offset"]), tstr(d["dirty"]), tstr(d["current_cluster"])), fn.loc(b, i))
    R.require(n >= 1, fn, "fileinfo-literals", "open_file_in_dir must build its FileInfo records as literals (found %d)" % n, fn.loc(0))


def _empty_buf_guard(g, argn=2):
    """the edge is taken exactly when the slice argument is empty: buf.is_empty(), buf.len() == 0, `match buf { [] => ..}`"""
    from .ev import cmp_forms
    is_buf = lambda q: strip_refs(q)[:2] == ("arg", argn)
    if g.kind == "bool" and g.truth is True and g.term[0] == "call" and g.term[1] and g.term[1].endswith("is_empty") and is_buf(g.term[2][0]):
        return True
    is_len = lambda q: (q[0] == "call" and q[1] and q[1].endswith("::len") and len(q[2]) == 1 and is_buf(q[2][0])) or (q[0] == "un" and q[1] == "PtrMetadata" and is_buf(q[2]))
    for (op, a, b, t) in cmp_forms(g):
        if op == "Eq" and t and is_len(strip_refs(a)) and strip_refs(b)[:2] == ("c", 0):
            return True
    return False


@rule("IO1", ["C01", "C02"], floor=6,
      doc="embedded-io adapters forward to the same primitives: Read::read -> File::read, Write::write -> File::write then Ok(buf.len()), flush -> File::flush, Seek::seek maps Start/End/Current to seek_from_start / seek_from_end(-offset) / seek_from_current and returns the new offset; errors are propagated")
def io1(F, R):
    def impl(trait, meth):
        c = [f for f in F.fns if f.npath.startswith("<filesystem::files::File") and f.npath.endswith(" as embedded_io::%s>::%s" % (trait, meth))]
        return c[0] if c else None
    for trait, meth, target in (("Read", "read", "File::read"), ("Write", "write", "File::write"), ("Write", "flush", "File::flush")):
        f = impl(trait, meth)
        if f is None:
            R.bad(None, "%s::%s" % (trait, meth), "embedded-io impl %s::%s for File not found" % (trait, meth), kind="anchor-missing")
            continue
        calls = [callee_of(t) or "" for b, t in f.calls()]
        R.require(any(path_matches(c, target) for c in calls), f, "%s::%s" % (trait, meth), "%s::%s must forward to %s (calls: %s)" % (trait, meth, target, [c.split("::")[-1] for c in calls]), f.loc(0))
    # Write::write reports exactly what it handed to File::write: the inherent write takes the caller's whole slice
    # (it stores all of it or fails), and the count returned is that slice's length - a smaller count makes write_all
    # send the tail again, a larger one drops data
    f = impl("Write", "write")
    if f is not None:
        ws = [(b, t) for b, t in f.calls() if path_matches(callee_of(t) or "", "File::write")]
        okw = len(ws) == 1 and strip_refs(f.term_of_operand(ws[0][1]["args"][1], ws[0][0]))[:2] == ("arg", 2)
        for (b, i, v) in ok_returns(f):
            v = strip_refs(v)
            if v[:2] == ("c", 0):
                # the empty-buffer shortcut: only under buf.is_empty()
                okw = okw and guarded(f, b, _empty_buf_guard)[0]
            else:
                whole = v[0] == "call" and v[1] and v[1].endswith("slice::len") and strip_refs(v[2][0])[:2] == ("arg", 2)
                okw = okw and whole and bool(ws) and guarded(f, b, g_try_ok("File::write"))[0]
        R.require(okw, f, "Write::write:count", "Write::write must pass the caller's whole buffer to File::write and return Ok(buf.len()) after it succeeded (Ok(0) only for an empty buffer)", f.loc(0))
    f = impl("Read", "read")
    if f is not None:
        rs = [(b, t) for b, t in f.calls() if path_matches(callee_of(t) or "", "File::read")]
        okr = len(rs) == 1 and strip_refs(f.term_of_operand(rs[0][1]["args"][1], rs[0][0]))[:2] == ("arg", 2)
        for d in f.defs().get(0, []):
            if d[0] == "assign":
                v = strip_refs(f.term_of_rvalue(d[3], d[1]))
                # the only literal result is Ok(0) for an empty buffer
                okr = okr and v[0] == "agg" and v[2] and v[2].endswith("Result::Ok") and strip_refs(v[3][0])[:2] == ("c", 0) and \
                    guarded(f, d[1], _empty_buf_guard)[0]
            elif d[0] == "call":
                okr = okr and path_matches(callee_of(d[2]) or "", "File::read")
        R.require(okr, f, "Read::read:count", "Read::read must hand the caller's whole buffer to File::read and return its result unchanged (Ok(0) only for an empty buffer)", f.loc(0))
    f = impl("Seek", "seek")
    if f is None:
        R.bad(None, "Seek::seek", "Seek impl for File not found", kind="anchor-missing")
        return
    want = {"Start": "File::seek_from_start", "End": "File::seek_from_end", "Current": "File::seek_from_current"}
    for var, target in want.items():
        sites = [(b, t) for b, t in f.calls() if path_matches(callee_of(t) or "", target)]
        ok = len(sites) == 1 and guarded(f, sites[0][0], lambda g, var=var: g.kind == "variant" and g.variant == var)[0]
        if ok and var == "End":
            a = f.term_of_operand(sites[0][1]["args"][1], sites[0][0])
            ok = has_sub(a, lambda q: q[0] == "un" and q[1] == "Neg")
        R.require(ok, f, "seek:" + var, "SeekFrom::%s must map to %s%s" % (var, target, " with the negated offset" if var == "End" else ""), f.loc(0))
    R.require(any(path_matches(callee_of(t) or "", "File::offset") for b, t in f.calls()), f, "seek:returns-offset", "seek must return the file's new offset", f.loc(0))
    # every request goes through one of the three checked primitives (which take the lock and validate the handle) before the
    # position is read back: no arm answers from File::offset() alone (that accessor panics on a stale handle / held lock)
    offs = [b for b, t in f.calls() if path_matches(callee_of(t) or "", "File::offset")]
    seeks = [b for b, t in f.calls() if any(path_matches(callee_of(t) or "", x) for x in want.values())]
    bare = [b for b in offs if b in f.reach([0], cut_blocks=seeks)]
    R.require(not bare, f, "seek:always-through-a-primitive", "some request (e.g. SeekFrom::Current(0)) reaches File::offset() without going through seek_from_start / seek_from_end / seek_from_current: on a closed handle or inside a directory callback it panics instead of returning an error", f.loc(bare[0]) if bare else f.loc(0))
    # the 64-bit positions of the trait reach the 32-bit primitives only through checked conversions: no `as` cast narrows them
    W_ = {"u8": 8, "i8": 8, "u16": 16, "i16": 16, "u32": 32, "i32": 32, "u64": 64, "i64": 64, "usize": 64, "isize": 64}
    narrow = [(b, i) for b, i, s_ in f.stmts() if s_["k"] == "Assign" and s_["rv"]["k"] == "Cast" and s_["rv"].get("kind") == "IntToInt"
              and W_.get(s_["rv"].get("src") or "", 0) > W_.get(s_["rv"].get("ty") or "", 99)]
    R.require(not narrow, f, "seek:no-truncation", "seek narrows a 64-bit position with an `as` cast: a target of 2^32*k + r silently lands on offset r instead of being refused (InvalidOffset)", f.loc(narrow[0][0], narrow[0][1]) if narrow else f.loc(0))
    # no function of the crate calls itself (the adapters once did: `self.read(buf)` on &mut File resolves to the trait method)
    n = 0
    for g in F.fns:
        if g.npath.startswith(("fat::test", "volume_mgr::tests", "sdcard::proto::test", "filesystem::filename::test")):
            continue
        for b, t in g.calls():
            r = strip_generics(t["resolved"]) if t.get("resolved") else None
            if r and r == g.npath and t.get("resolved_kind") == "item":
                n += 1
                R.bad(g, "self-recursion", "%s calls itself (unbounded recursion: method resolution picked this very method)" % g.npath, g.loc(b))
    if n == 0:
        R.ok(None, "no-self-recursion", "no function of the crate resolves a call to itself")


# ---------------------------------------------------------------------------------------
# RD1 / WR1 / SK5: the offset -> (block, offset-in-block, available) translation and the copy loops


def slice_window(t):
    """(base term, start term, length term | None for 'to the end') of a slice expression built from nested index / index_mut
    calls with Range / RangeFrom / RangeTo / RangeInclusive / RangeFull arguments: `buf[a..][..n]` and `buf[a..a + n]` are
    the same window.  None when t is not such an expression (then t itself is the base: window (t, 0, None))."""
    from .poly import ADD, SUB, C
    t = strip_refs(t)
    while t[0] == "place" and all(e == "*" for e in t[2]):
        t = strip_refs(t[1])
    if t[0] == "call" and t[1] and t[1].split("::")[-1] in ("index", "index_mut") and len(t[2]) == 2:
        r = strip_refs(t[2][1])
        a = n = None
        if r[0] == "agg" and r[2]:
            nm = r[2].replace("::Range::Range", "::Range").split("::")[-1]
            full = r[2]
            if full.endswith(("ops::RangeFrom", "RangeFrom::RangeFrom")) and len(r[3]) == 1:
                a, n = r[3][0], None
            elif full.endswith(("ops::RangeTo", "RangeTo::RangeTo")) and len(r[3]) == 1:
                a, n = C(0), r[3][0]
            elif full.endswith(("ops::Range", "ops::Range::Range")) and len(r[3]) == 2:
                a, n = r[3][0], SUB(r[3][1], r[3][0])
            elif full.endswith(("ops::RangeFull", "RangeFull::RangeFull")):
                a, n = C(0), None
            else:
                return None
        elif r[0] == "call" and r[1] and r[1].endswith("RangeInclusive::new") and len(r[2]) >= 2:
            a, n = r[2][0], ADD(SUB(r[2][1], r[2][0]), C(1))
        else:
            return None
        inner = slice_window(t[2][0])
        if inner is None:
            return (strip_refs(t[2][0]), a, n)
        base, s0, n0 = inner
        if n is None and n0 is not None:
            n = SUB(n0, a)
        return (base, ADD(s0, a), n)
    return None


def _single_atom(t):
    """the operand x of a sum / difference t with t == x as polynomials (`a + n - a` is n); t itself when it is no sum"""
    from .poly import peq
    leaves = []

    def walk(x):
        x0 = strip_refs(x)
        if x0[0] == "bin" and x0[1].replace("WithOverflow", "").replace("Unchecked", "") in ("Add", "Sub"):
            walk(x0[2])
            walk(x0[3])
        else:
            leaves.append(x)
    walk(t)
    if len(leaves) == 1:
        return leaves[0]
    for x in leaves:
        if peq(t, x):
            return x
    return None


def min_args(t):
    """operands of a (nested, any order, function or method form) minimum"""
    t0 = strip_refs(t)
    if t0[0] == "call" and t0[1] and t0[1].split("::")[-1] == "min" and len(t0[2]) == 2:
        return min_args(t0[2][0]) + min_args(t0[2][1])
    return [t]


def _is_fdd_comp(t, k):
    """term is component k of a find_data_on_disk result (through `?` or a match variable)"""
    t = strip_refs(t)
    if t[0] == "place" and t[2] and t[2][-1] == str(k):
        return has_sub(t[1], lambda q: q[0] == "call" and q[1] and path_matches(q[1], "find_data_on_disk")) or t[1][0] == "var"
    return False


@rule("SK5", ["C01"], floor=3,
      doc="find_data_on_disk returns (cluster_to_block(cursor cluster) + (desired - cursor offset)/512, desired % 512, 512 - desired % 512) after advancing the cursor by (desired - cursor offset)/bytes_per_cluster links, adding bytes_per_cluster per link")
def sk5(F, R):
    fn = F.fn(VMD + "::find_data_on_disk")
    # the translation is total on the chain: it fails only with the error of a FAT lookup (EndOfFile at the chain's end, a
    # device error), never for a reason of its own - a refusal of valid positions makes part of the volume unusable
    from .fsmodel import err_returns
    own = [(b, i) for (b, i, var, term) in err_returns(fn, adt="Error")]
    R.require(not own, fn, "no-own-errors", "find_data_on_disk returns an error of its own making (besides propagating next_cluster's): positions it refuses can be neither read nor written", fn.loc(own[0][0], own[0][1]) if own else fn.loc(0))
    oks = ok_returns(fn)
    R.require(len(oks) == 1, fn, "single-ok", "expected one Ok((block, offset, avail)) return", fn.loc(0))
    for (b, i, v) in oks:
        ok = v[0] == "agg" and len(v[3]) == 3
        if ok:
            blk, off, av = v[3]
            from .poly import peq, ADD, SUB, DIV, REM, C
            want = ("arg", 5, "desired_offset")
            st0 = ("place", ("arg", 3, "start"), ("*", "0"))
            ctb = [q for q in subterms(blk) if q[0] == "call" and q[1] and path_matches(q[1], "FatVolume::cluster_to_block")]
            _c = strip_refs(ctb[0][2][1]) if len(ctb) == 1 else ("none",)
            ok = len(ctb) == 1 and _c[0] == "place" and _c[1][:2] == ("arg", 3) and tuple(_c[2]) == ("*", "1")
            ok = ok and peq(blk, ADD(ctb[0], DIV(SUB(want, st0), C(512))))
            rem = ("cast", "usize", REM(want, C(512)), "u32")
            ok = ok and peq(off, rem)
            ok = ok and peq(av, SUB(C(512), rem))
        R.require(ok, fn, "result-formula", "find_data_on_disk must return (cluster_to_block(start.1) + (desired - start.0)/512, desired %% 512, 512 - desired %% 512); got %s" % tstr(v), fn.loc(b, i))
    # loop trip count and per-link advance
    # the number of links followed: the trip count of the walk's loop, however the loop counts (for 0..n, countdown, count-up)
    from .ev import loop_trip_count
    rng = None
    wl = [l for l in fn.loops() if any(call_matches(fn.term(b), ("FatVolume::next_cluster",)) for b in l[1] if fn.term(b)["k"] == "Call")]
    if len(wl) == 1:
        tc_ = loop_trip_count(fn, wl[0])
        if tc_ is not None:
            rng = [tc_[1], tc_[2]] if tc_[0] == "range" else [("c", 0, None), tc_[1]]
    from .poly import peq as _peq, ADD as _ADD, SUB as _SUB, DIV as _DIV, MUL as _MUL, C as _C
    _want = ("arg", 5, "desired_offset")
    _st0 = ("place", ("arg", 3, "start"), ("*", "0"))
    bpcs = [q for x in (rng or []) for q in subterms(x) if q[0] == "call" and q[1] and path_matches(q[1], "FatVolume::bytes_per_cluster")]
    okr = rng is not None and bool(bpcs) and _peq(rng[0], _C(0)) and _peq(rng[1], _DIV(_SUB(_want, _st0), bpcs[0]))
    R.require(okr, fn, "link-count", "the cursor must advance by (desired_offset - start.0) / bytes_per_cluster links; loop range is %s" % ([tstr(x) for x in rng] if rng else None), fn.loc(0))
    adv = []
    for b, i, s in fn.stmts():
        if arg_field_store(s, 3, 0, fn):
            v = fn.term_of_rvalue(s["rv"], b)
            if _peq(v, _C(0)):
                continue       # the rewind (checked by SK2)
            cs = [q for q in subterms(v) if q[0] == "call" and q[1] and path_matches(q[1], "FatVolume::bytes_per_cluster")]
            adv.append((b, i, bool(cs) and _peq(v, _ADD(_st0, cs[0]))))
    adv_bad = [a for a in adv if not a[2]]
    adv = [a for a in adv if a[2]] if not adv_bad else []
    R.require(len(adv) == 1, fn, "offset-advance", "each FAT link must add bytes_per_cluster to the cursor offset", fn.loc(0))
    bpc = F.fn(FATVOL + "::bytes_per_cluster")
    rets = [bpc.term_of_rvalue(s["rv"], b) for b, i, s in bpc.stmts() if s["k"] == "Assign" and s["p"]["l"] == 0 and not s["p"]["proj"]]
    R.require(len(rets) == 1 and _peq(rets[0], _MUL(("place", ("arg", 1, "self"), ("*", "blocks_per_cluster")), _C(512))), bpc, "bytes_per_cluster", "bytes_per_cluster must be blocks_per_cluster * 512", bpc.loc(0))


@rule("RD1", ["C01"], floor=5,
      doc="read loop: to_copy = min(block_avail, space, file.left()); buffer[read..read+to_copy] <- block[block_offset..block_offset+to_copy] of the block found for (cursor, file start, current offset); then read += to_copy, space -= to_copy, seek_from_current(to_copy); loop while space > 0 && !eof; returns Ok(read)")
def rd1(F, R):
    fn = F.fn(VM + "::read")
    cps = [(b, t) for b, t in fn.calls() if (callee_of(t) or "").endswith("copy_from_slice")]
    R.require(len(cps) == 1, fn, "copy-site", "expected one copy into the caller's buffer", fn.loc(0))
    for b, t in cps:
        dst = fn.term_of_operand(t["args"][0], b)
        src = fn.term_of_operand(t["args"][1], b)
        from .poly import peq as _peq
        wd, ws = slice_window(dst), slice_window(src)
        ok = wd is not None and ws is not None and wd[2] is not None and ws[2] is not None
        tc = None
        rd_start = None
        if ok:
            # the windows, however the slicing is spelt (buf[r..r+n], buf[r..][..n]): same length, destination starts at the
            # running count, source at the block offset find_data_on_disk gave
            tc = _single_atom(wd[2])
            rd_start = strip_refs(wd[1]) if strip_refs(wd[1])[0] == "var" else _single_atom(wd[1])
            ok = tc is not None and rd_start is not None and strip_refs(rd_start)[0] == "var" and strip_refs(wd[0])[:2] == ("arg", 3)
            ok = ok and _peq(ws[2], wd[2]) and _is_fdd_comp(_single_atom(ws[1]) or ws[1], 1)
        R.require(ok, fn, "copy-ranges", "the copy must be buffer[read..read+n] <- block[block_offset..block_offset+n] with the same n", fn.loc(b))
        ma = min_args(tc) if tc is not None else []

        def is_space(x):
            """the room left in the caller's buffer: a local kept in step (checked under bookkeeping), or len(buffer[read..])"""
            x0 = strip_refs(x)
            if x0[0] == "var" and not _is_fdd_comp(x, 2):
                return "var"
            if x0[0] == "call" and x0[1] and x0[1].split("::")[-1] == "len" and x0[2] or x0[0] == "un" and x0[1] == "PtrMetadata":
                w = slice_window(x0[2][0] if x0[0] == "call" else x0[2])
                if w is not None and w[2] is None and strip_refs(w[0])[:2] == ("arg", 3) and rd_start is not None and _peq(w[1], rd_start):
                    return "window"
            return None
        okn = (len(ma) == 3 and sum(1 for x in ma if _is_fdd_comp(x, 2)) == 1 and sum(1 for x in ma if is_space(x)) == 1
               and sum(1 for x in ma if has_sub(x, lambda q: q[0] == "call" and q[1] and path_matches(q[1], "FileInfo::left"))) == 1)
        space_form = ([is_space(x) for x in ma if is_space(x)] or [None])[0]
        R.require(okn, fn, "to_copy", "to_copy must be min(block_avail, space, file.left()); got %s" % (tstr(tc)[:200] if tc else None), fn.loc(b))
        R.require(has_sub(dst, lambda q: q[:2] == ("arg", 3)) and has_sub(src, lambda q: q[0] == "call" and q[1] and path_matches(q[1], "BlockCache::read")), fn, "copy-direction", "data must flow from the cached block into the caller's buffer", fn.loc(b))
        # bookkeeping after the copy
        names = {}
        for l, loc in enumerate(fn.locals):
            ds = var_def_terms(fn, l)
            if len(ds) == 2 and any(d[:2] == ("c", 0) for d in ds) and any(tmatch(d, ("bin", "Add", ("var", "_"), "_")) is not None for d in ds):
                names["read"] = l
            if len(ds) == 2 and any(tmatch(d, ("call", "len")) is not None or "len(" in tstr(d) or "PtrMetadata" in tstr(d) for d in ds) and any(tmatch(d, ("bin", "Sub", ("var", "_"), "_")) is not None for d in ds):
                names["space"] = l
        okb = "read" in names and ("space" in names or space_form == "window")
        if okb:
            dr = [d for d in var_def_terms(fn, names["read"]) if d[0] == "bin"][0]
            okb = dr[3] == tc and rd_start is not None and strip_refs(rd_start)[:2] == ("var", names["read"])
            if space_form != "window":
                dsp = [d for d in var_def_terms(fn, names["space"]) if d[0] == "bin"][0]
                okb = okb and dsp[3] == tc
        R.require(okb, fn, "bookkeeping", "after the copy: read += to_copy and space -= to_copy with the same to_copy", fn.loc(b))
        sk = [(bb, tt) for bb, tt in fn.calls() if call_matches(tt, ("FileInfo::seek_from_current",))]
        oks = len(sk) == 1 and tmatch(fn.term_of_operand(sk[0][1]["args"][1], sk[0][0]), ("cast", "$n")) is not None and tmatch(fn.term_of_operand(sk[0][1]["args"][1], sk[0][0]), ("cast", "$n"))["$n"] == tc
        R.require(oks, fn, "advance-offset", "the file offset must advance by to_copy (seek_from_current(to_copy))", fn.loc(b))
    # the block read is the one find_data_on_disk computed for (cursor, entry.cluster, current_offset)
    fd = [(b, t) for b, t in fn.calls() if call_matches(t, ("find_data_on_disk",))]
    okf = len(fd) == 1
    if okf:
        a = [tstr(fn.term_of_operand(x, fd[0][0])) for x in fd[0][1]["args"]]
        okf = a[3].endswith(".entry.cluster") and a[4].endswith(".current_offset") and "open_files" in a[3] and "open_files" in a[4]
    R.require(okf, fn, "lookup-args", "find_data_on_disk must be asked for (file start cluster, current offset) of the open file", fn.loc(0))
    rd_ = [(b, t) for b, t in fn.calls() if call_matches(t, ("BlockCache::read",))]
    R.require(len(rd_) == 1 and _is_fdd_comp(fn.term_of_operand(rd_[0][1]["args"][1], rd_[0][0]), 0), fn, "block=lookup.0", "the block read must be the one find_data_on_disk returned", fn.loc(0))
    for (b, i, v) in ok_returns(fn):
        R.require("read" in locals().get("names", {}) and strip_refs(v) == ("var", names["read"], fn.local_name(names["read"])), fn, "returns-count", "read() must return the number of bytes copied", fn.loc(b, i))


@rule("WR1", ["C01", "C04"], floor=4,
      doc="write loop: to_copy = min(block_avail, bytes_to_write - written); block[block_offset..block_offset+to_copy] <- buffer[written..written+to_copy]; written += to_copy; new_offset = current_offset + to_copy, seek_from_start(new_offset); bytes_to_write = min(buffer.len(), MAX_FILE_SIZE - current_offset); the loop runs while written < bytes_to_write")
def wr1(F, R):
    fn = F.fn(VM + "::write")
    cps = [(b, t) for b, t in fn.calls() if (callee_of(t) or "").endswith("copy_from_slice")]
    R.require(len(cps) == 1, fn, "copy-site", "expected one copy into the cached block", fn.loc(0))
    for b, t in cps:
        dst = fn.term_of_operand(t["args"][0], b)
        src = fn.term_of_operand(t["args"][1], b)
        rd = find_sub(dst, ("agg", "Range", ["$a", "$b"]))
        rs = find_sub(src, ("agg", "Range", ["$a", "$b"]))
        ok = rd is not None and rs is not None
        tc = None
        if ok:
            e = tmatch(rd["$b"], ("bin", "Add", "$x", "$n"))
            ok = e is not None and e["$x"] == rd["$a"] and _is_fdd_comp(rd["$a"], 1)
            tc = e["$n"] if e else None
        if ok:
            e2 = tmatch(rs["$b"], ("bin", "Add", "$x", "$n"))
            ok = e2 is not None and e2["$x"] == rs["$a"] and e2["$n"] == tc and strip_refs(rs["$a"])[0] == "var" and has_sub(src, lambda q: q[:2] == ("arg", 3))
        R.require(ok, fn, "copy-ranges", "the copy must be block[block_offset..block_offset+n] <- buffer[written..written+n] with the same n", fn.loc(b))
        okn = False
        if tc is not None:
            ma = min_args(tc)
            e3 = None
            if len(ma) == 2 and sum(1 for x in ma if _is_fdd_comp(x, 2)) == 1:
                other = [x for x in ma if not _is_fdd_comp(x, 2)][0]
                e3 = tmatch(other, ("bin", "Sub", "$total", "$written"))
            okn = e3 is not None and e3["$written"] == (rs["$a"] if rs else None)
            if okn:
                tot = e3["$total"]
                # min(buffer.len(), room) either way round
                tot_args = min_args(tot)
                is_len_ = lambda x: tmatch(strip_refs(x), ("call", "len")) is not None or tmatch(strip_refs(x), ("un", "PtrMetadata", "_")) is not None
                okn = len(tot_args) == 2 and sum(1 for x in tot_args if is_len_(x)) == 1 and ("MAX_FILE_SIZE" in tstr(tot) or has_sub(tot, lambda q: q[:2] == ("c", 0xFFFFFFFF))) and "current_offset" in tstr(tot)
        R.require(okn, fn, "to_copy", "to_copy must be min(block_avail, min(buffer.len(), MAX_FILE_SIZE - current_offset) - written); got %s" % (tstr(tc)[:220] if tc else None), fn.loc(b))
        # written += to_copy
        wv = strip_refs(rs["$a"]) if rs else None
        okw = False
        if wv is not None and wv[0] == "var":
            wds = [strip_refs(d) for d in var_def_terms(fn, wv[1])]
            # two definitions: 0, and itself + to_copy
            okw = len(wds) == 2 and any(d[:2] == ("c", 0) for d in wds) and any(d[0] == "bin" and d[1] == "Add" and strip_refs(d[2])[:2] == ("var", wv[1]) and d[3] == tc for d in wds)
        R.require(okw, fn, "written+=to_copy", "written must start at 0 and advance by to_copy", fn.loc(b))
    sk = [(b, t) for b, t in fn.calls() if call_matches(t, ("FileInfo::seek_from_start",))]
    oks = len(sk) == 1
    if oks:
        a = fn.term_of_operand(sk[0][1]["args"][1], sk[0][0])
        oks = (tmatch(a, ("bin", "Add", ("place", "_"), ("cast", "_"))) is not None or tmatch(a, ("bin", "Add", ("cast", "_"), ("place", "_"))) is not None) and "current_offset" in tstr(a)
    R.require(oks, fn, "advance-offset", "the file offset must become current_offset + to_copy", fn.loc(0))
    other_seeks = [b for b, t in fn.calls() if call_matches(t, ("FileInfo::seek_from_end", "FileInfo::seek_from_current"))]
    pos_stores = [(b, i) for b, i, s in fn.stmts() if s["k"] == "Assign" and s["p"]["proj"] and [e[2] for e in s["p"]["proj"] if e[0] == "field"][-1:] == ["current_offset"]]
    R.require(not other_seeks and not pos_stores, fn, "writes-at-current-offset", "write() moves the file position by other means than seek_from_start(current_offset + to_copy) after a block is written (e.g. jumps to the end first): the data must go where the handle's offset is, in every open mode", fn.loc(other_seeks[0]) if other_seeks else fn.loc(0))
    ul = [(b, t) for b, t in fn.calls() if call_matches(t, ("FileInfo::update_length",))]
    okl = len(ul) == 1 and sk and tstr(fn.term_of_operand(ul[0][1]["args"][1], ul[0][0])) == tstr(fn.term_of_operand(sk[0][1]["args"][1], sk[0][0]))
    if len(ul) == 1 and sk and not okl:
        # `update_length(size.max(new_offset))`: the new offset when the file grows, the old length otherwise
        from .rules_guard import max_with
        is_size_ = lambda y: y[0] == "place" and [e for e in y[2] if isinstance(e, str)][-2:] == ["entry", "size"]
        other = max_with(fn.term_of_operand(ul[0][1]["args"][1], ul[0][0]), is_size_)
        okl = other is not None and tstr(other) == tstr(strip_refs(fn.term_of_operand(sk[0][1]["args"][1], sk[0][0])))
    R.require(okl, fn, "length=new_offset", "the recorded length must become the new offset when the file grows", fn.loc(0))


def alternatives(fn, t, limit=16):
    """Expand multi-definition locals occurring in `t` into their defining terms: [(term, [def blocks])]."""
    from .mir import subterms
    out = [(t, [])]
    for _round in range(3):
        nxt = []
        changed = False
        for (x, blks) in out:
            vs = [q for q in subterms(x) if q[0] == "var"]
            if not vs:
                nxt.append((x, blks))
                continue
            v = vs[0]
            ds = fn.defs().get(v[1], [])
            if not ds:
                nxt.append((x, blks))
                continue
            changed = True
            for d in ds:
                dt = fn.term_of_rvalue(d[3], d[1]) if d[0] == "assign" else fn.call_term(d[2], d[1])
                nxt.append((subst(x, v, dt), blks + [d[1]]))
        out = nxt[:limit]
        if not changed:
            break
    return out


def subst(t, v, r):
    if t == v:
        return r
    if not isinstance(t, tuple):
        return t
    return tuple(subst(x, v, r) if isinstance(x, tuple) else x for x in t)


def self_field(*proj):
    return ("place", ("arg", 1, "self"), ("*",) + proj)


@rule("CB1", ["C04", "C01", "C06"], floor=4,
      doc="cluster_to_block (compared as polynomials, see analysis/poly.py): FAT16 root -> lba_start + first_root_dir_block, FAT16 cluster c -> lba_start + first_data_block + (c-2)*blocks_per_cluster; FAT32 root -> first_root_dir_cluster, cluster n -> lba_start + first_data_block + (n-2)*blocks_per_cluster; the root alternative is selected by cluster == ROOT_DIR; BlockIdx::range(n) yields start, start+1, .. start+n-1 (end exclusive)")
def cb1(F, R):
    from .poly import peq, ADD, SUB, MUL, C, show
    fn = F.fn(FATVOL + "::cluster_to_block")
    arms = fat_arms(fn)
    alts = {"Fat16": [], "Fat32": []}
    for d in fn.defs().get(0, []):
        b = d[1]
        arm = "Fat16" if b in arms["Fat16"] else ("Fat32" if b in arms["Fat32"] else None)
        t = fn.term_of_rvalue(d[3], b) if d[0] == "assign" else fn.call_term(d[2], b)
        if arm is None:
            R.bad(fn, "arm", "a return value of cluster_to_block is computed outside the FAT16/FAT32 arms", fn.loc(b))
            continue
        for (x, blks) in alternatives(fn, t):
            alts[arm].append((x, [b] + blks))
    bpc = self_field("blocks_per_cluster")
    lba = self_field("lba_start")
    fdb = self_field("first_data_block")
    cl = ("arg", 2, "cluster")
    def is_root(g):
        if g.kind == "value" and g.value == 0xFFFFFFFC and has_sub(g.term, lambda q: q[:2] == ("arg", 2)):
            return True
        if g.kind == "bool" and g.truth and g.term[0] == "cmp" and g.term[1] == "Eq":
            ab = [tstr(g.term[2]), tstr(g.term[3])]
            return any(has_sub(x, lambda q: q[:2] == ("arg", 2)) for x in (g.term[2], g.term[3])) and any("ROOT_DIR" in x or x in ("4294967292", "0xfffffffc") for x in ab)
        return False

    def classify_alts(arm, root_formula, data_formula):
        got = {"root": 0, "data": 0, "other": []}
        for (x, blks) in alts[arm]:
            if peq(x, root_formula):
                g = any(guarded(fn, bb, is_root)[0] for bb in blks)
                if g:
                    got["root"] += 1
                else:
                    got["other"].append("root-directory formula used without the cluster == ROOT_DIR test")
            elif peq(x, data_formula):
                if any(guarded(fn, bb, is_root)[0] for bb in blks):
                    got["other"].append("data-cluster formula used for ROOT_DIR")
                else:
                    got["data"] += 1
            else:
                got["other"].append(show(x))
        return got

    g16 = classify_alts("Fat16", ADD(lba, self_field("fat_specific_info", "as:Fat16", "0", "first_root_dir_block")),
                        ADD(lba, ADD(fdb, MUL(SUB(cl, C(2)), bpc))))
    R.require(g16["root"] >= 1 and g16["data"] >= 1 and not g16["other"], fn, "fat16",
              "FAT16 mapping must be lba_start + (cluster == ROOT_DIR ? first_root_dir_block : first_data_block + (c-2)*blocks_per_cluster); unexpected: %s" % (g16["other"] or "missing alternative"), fn.loc(0))
    g32 = classify_alts("Fat32", ADD(lba, ADD(fdb, MUL(SUB(self_field("fat_specific_info", "as:Fat32", "0", "first_root_dir_cluster"), C(2)), bpc))),
                        ADD(lba, ADD(fdb, MUL(SUB(cl, C(2)), bpc))))
    R.require(g32["root"] >= 1 and g32["data"] >= 1 and not g32["other"], fn, "fat32",
              "FAT32 mapping must be lba_start + first_data_block + (n-2)*blocks_per_cluster with n = (cluster == ROOT_DIR ? first_root_dir_cluster : cluster); unexpected: %s" % (g32["other"] or "missing alternative"), fn.loc(0))
    # BlockIdx::range(num) and BlockIter::next, decided together by evaluation: the iterator range(a, n) builds must yield
    # a, a+1, ..., a+n-1 and then None - whatever the fields are called and however next() is phrased
    from .absint import Interp, State, Undecided
    from .absval import const, agg as _agg, int_const, is_int, is_agg
    rg = F.fn("blockdevice::BlockIdx::range")
    nx = [f for f in F.fns if f.npath.endswith("BlockIter as core::iter::Iterator>::next")]
    bad = None
    if not nx:
        bad = "BlockIter has no Iterator::next"
    else:
        try:
            for a, n in ((0, 0), (7, 1), (7, 3), (0xFFFFFFF0, 5), (123456, 2)):
                I = Interp(F, mode="bv", max_paths=64)
                st = State()
                outs = I.run(rg, [_agg("struct", "blockdevice::BlockIdx", 0, [const(a, 32)]), _agg("struct", "blockdevice::BlockCount", 0, [const(n, 32)])], st, 0)
                if len(outs) != 1:
                    bad = "range(%d, %d) has %d outcomes" % (a, n, len(outs))
                    break
                it, st = outs[0]
                cell = I.heap_alloc(st, it)
                got = []
                for _k in range(n + 2):
                    o2 = I.run(nx[0], [cell], st, 0)
                    if len(o2) != 1:
                        got.append("?")
                        break
                    rv, st = o2[0]
                    if is_agg(rv) and rv[3] == 0:
                        got.append(None)
                    elif is_agg(rv) and rv[3] == 1 and is_agg(rv[4][0]) and is_int(rv[4][0][4][0]):
                        got.append(int_const(rv[4][0][4][0]))
                    else:
                        got.append("?")
                want = [a + k for k in range(n)] + [None, None]
                if got != want:
                    bad = "BlockIdx(%d).range(BlockCount(%d)) yields %s, expected %s" % (a, n, got, want)
                    break
        except Undecided as e:
            bad = "cannot evaluate: %s" % e
    R.require(bad is None, rg, "range", "BlockIdx::range(num) must iterate over self .. self + num (end exclusive), one block at a time: %s" % bad, rg.loc(0))
    R.require(bad is None, nx[0] if nx else None, "iter-next", "BlockIter::next must yield current and advance by one exactly while current < end (end exclusive): %s" % bad)


@rule("FI1", ["C01"], floor=3,
      doc="FileInfo queries: eof() is current_offset == entry.size, left() is entry.size - current_offset, length() is entry.size; update_length stores the new size")
def fi1(F, R):
    def ret(fn):
        r = [fn.term_of_rvalue(s["rv"], b) for b, i, s in fn.stmts() if s["k"] == "Assign" and s["p"]["l"] == 0 and not s["p"]["proj"]]
        return r[0] if len(r) == 1 else None
    off = ("place", ("arg", 1), ("*", "current_offset"))
    size = ("place", ("arg", 1), ("*", "entry", "size"))
    f = F.fn("FileInfo::eof")
    t = ret(f)
    R.require(t is not None and (tmatch(t, ("bin", "Eq", off, size)) is not None or tmatch(t, ("bin", "Eq", size, off)) is not None), f, "eof", "eof() must be current_offset == size, got %s" % (tstr(t) if t else None), f.loc(0))
    f = F.fn("FileInfo::left")
    t = ret(f)
    R.require(t is not None and tmatch(t, ("bin", "Sub", size, off)) is not None, f, "left", "left() must be size - current_offset, got %s" % (tstr(t) if t else None), f.loc(0))
    f = F.fn("FileInfo::length")
    t = ret(f)
    R.require(t is not None and tmatch(t, size) is not None, f, "length", "length() must be entry.size", f.loc(0))
    f = F.fn("FileInfo::update_length")
    st = [(f.place_str(s["p"]), tstr(f.term_of_rvalue(s["rv"], b))) for b, i, s in f.stmts() if s["k"] == "Assign" and s["p"]["proj"]]
    st_ok = [(s["p"]["l"] == 1 and [e[2] for e in s["p"]["proj"] if e[0] == "field"] == ["entry", "size"] and strip_refs(f.term_of_rvalue(s["rv"], b))[:2] == ("arg", 2))
             for b, i, s in f.stmts() if s["k"] == "Assign" and s["p"]["proj"]]
    R.require(st_ok == [True], f, "update_length", "update_length must store exactly entry.size = new, got %s" % st, f.loc(0))
