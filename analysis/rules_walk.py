"""Directory-walk agreement (LS4), entry decoding (LS5), open-file identity exactness (MD9x), cursor discipline (SK2, SK4)."""
from .framework import rule
from .ev import all_guards, guarded, g_call, g_cmp, g_try_ok, try_inner
from .mir import tstr, callee_of, path_matches, strip_refs, subterms, tmatch, find_sub
from .fsmodel import VM, VMD, FATVOL, call_matches, ok_returns
from .dataflow import var_def_terms, roots
from .rules_guard import has_sub, last_field, is_variant
from .rules_fs import fat_arms

WALKERS = [
    ("write_new_directory_entry", ("Fat16", "Fat32")),
    ("iterate_fat16", ("Fat16",)),
    ("iterate_fat32", ("Fat32",)),
    ("find_directory_entry", ("Fat16", "Fat32")),
    ("delete_directory_entry", ("Fat16", "Fat32")),
]


def _dir_cluster_term(t):
    """the directory's own start cluster: (*dir_info).cluster or the dir_cluster argument"""
    t = strip_refs(t)
    if t[0] == "arg" and t[2] == "dir_cluster":
        return True
    return t[0] == "place" and last_field(t) == "cluster" and strip_refs(t[1])[0] == "arg"


@rule("LS4", ["C06", "C11", "C03"], floor=8,
      doc="all directory walkers agree: start at the directory's cluster (FAT32 root -> first_root_dir_cluster, FAT16 root -> lba_start + first_root_dir_block with from_bytes(root_entries*32) blocks), visit BlockIdx::range(cluster_to_block(current), blocks_per_cluster) and continue at cluster_to_block(n) for the n returned by next_cluster(current); every next_cluster error other than EndOfFile is returned")
def ls4(F, R):
    for name, arms in WALKERS:
        fn = F.fn(FATVOL + "::" + name)
        allarms = fat_arms(fn)
        for arm in arms:
            blocks = allarms[arm] if (allarms["Fat16"] or allarms["Fat32"]) and len(arms) == 2 else set(fn.live_blocks())
            key = "%s/%s" % (name, arm)
            ncs = [(b, t) for b, t in fn.calls() if b in blocks and call_matches(t, ("FatVolume::next_cluster",))]
            if not ncs:
                R.bad(fn, key + ":next_cluster", "no next_cluster call in the %s walk" % arm, kind="anchor-missing")
                continue
            problems = []
            for b, t in ncs:
                cur = strip_refs(fn.term_of_operand(t["args"][2], b))
                # cursor = (current_cluster as Some).0
                cv = None
                for s in subterms(cur):
                    if s[0] == "var":
                        cv = s[1]
                if cv is None:
                    problems.append("next_cluster is not called on the walk cursor (%s)" % tstr(cur))
                    continue
                defs = var_def_terms(fn, cv)
                dstr = sorted(tstr(d) for d in defs)
                # initial values
                init_ok = any(d[0] == "agg" and d[2] and d[2].endswith("Option::Some") and _dir_cluster_term(d[3][0]) for d in defs)
                if not init_ok:
                    problems.append("walk does not start at the directory's own cluster (cursor defs %s)" % dstr)
                if arm == "Fat32":
                    root_ok = any(d[0] == "agg" and d[2] and d[2].endswith("Option::Some") and last_field(strip_refs(d[3][0])) == "first_root_dir_cluster" for d in defs)
                    if not root_ok:
                        problems.append("FAT32 root walk does not start at first_root_dir_cluster (cursor defs %s)" % dstr)
                for d in defs:
                    if d[0] == "agg" and d[2] and d[2].endswith("Option::Some") and d[3][0][0] in ("c", "agg") and not has_sub(d[3][0], lambda q: q[0] in ("arg", "var", "place", "call")):
                        problems.append("walk cursor set to a constant cluster %s" % tstr(d))
                # continuation: cursor := Some(n) where n is the Ok payload of this next_cluster (possibly via a temp var)
                # block start for the next round
                # find cluster_to_block calls reached only on the Ok edge of this next_cluster call
                for b2, t2 in fn.calls():
                    if b2 in blocks and call_matches(t2, ("FatVolume::cluster_to_block",)):
                        okedge, _ = guarded(fn, b2, lambda g, b=b: g.kind == "variant" and g.variant == "Ok" and g.term[0] == "call" and g.term[3] == b)
                        if okedge:
                            a = fn.term_of_operand(t2["args"][1], b2)
                            good = has_sub(a, lambda q: q[0] == "place" and "as:Ok" in q[2] and q[1][0] == "call" and q[1][3] == b)
                            if not good:
                                problems.append("after next_cluster returned Ok(n) the walk continues at cluster_to_block(%s) instead of the cluster n just read from the FAT" % tstr(a))
                # error handling of this next_cluster: the Err edges other than EndOfFile must return
                dest = t["dest"]["l"]
            # block-start variable must only be (re)assigned, never advanced in place
            for b3, t3 in fn.calls():
                if b3 in blocks and call_matches(t3, ("BlockIdx::range",)):
                    st = strip_refs(fn.term_of_operand(t3["args"][0], b3))
                    sz = fn.term_of_operand(t3["args"][1], b3)
                    if st[0] == "var":
                        kinds = {d[0] for d in fn.defs().get(st[1], [])}
                        if "addrmut" in kinds or "partial" in kinds:
                            problems.append("the block-range start `%s` is advanced in place (+=) instead of being recomputed from the FAT" % (st[2] or "_%d" % st[1]))
                        for d in var_def_terms(fn, st[1]):
                            okd = (d[0] == "call" and d[1] and (path_matches(d[1], "FatVolume::cluster_to_block")))
                            okd = okd or tmatch(d, ("call", "Add::add", [("place", ("arg", "self"), ("*", "lba_start")), "_"])) is not None
                            if not okd:
                                problems.append("block-range start assigned from %s" % tstr(d))
                            if tmatch(d, ("call", "Add::add", [("place", ("arg", "self"), ("*", "lba_start")), "_"])) is not None:
                                if "first_root_dir_block" not in tstr(d):
                                    problems.append("FAT16 root region start is %s, expected lba_start + first_root_dir_block" % tstr(d))
                    elif st[0] == "call" and st[1] and path_matches(st[1], "FatVolume::cluster_to_block"):
                        a = st[2][1]
                        if not has_sub(a, lambda q: q[0] == "var"):
                            problems.append("block range starts at cluster_to_block(%s), not at the walk cursor" % tstr(a))
                    else:
                        problems.append("block range starts at %s" % tstr(st))
                    # size
                    szs = [sz] if strip_refs(sz)[0] != "var" else var_def_terms(fn, strip_refs(sz)[1])
                    for z in szs:
                        zs = tstr(z)
                        if not ("blocks_per_cluster" in zs or ("from_bytes" in zs and "root_entries_count" in zs and "0x20" in zs)):
                            problems.append("directory extent is %s, expected blocks_per_cluster or from_bytes(root_entries_count*32)" % zs)
            R.require(not problems, fn, key, "; ".join(sorted(set(problems))), fn.loc(ncs[0][0]), okdetail="walk skeleton ok (%d next_cluster site(s))" % len(ncs))


@rule("LS5", ["C06", "C18"], floor=3,
      doc="OnDiskDirEntry::get_entry: start cluster = hi<<16|lo for FAT32, lo for FAT16; cluster 0 on a directory entry means ROOT_DIR for both FAT types (the mapping does not depend on the FAT type)")
def ls5(F, R):
    fn = F.fn("OnDiskDirEntry::get_entry")
    # blocks that produce ROOT_DIR
    roots_ = []
    for b, i, s in fn.stmts():
        if s["k"] == "Assign" and not s["p"]["proj"]:
            v = fn.term_of_rvalue(s["rv"], b)
            if v[0] == "c" and v[2] and v[2].endswith("ClusterId::ROOT_DIR"):
                roots_.append((b, i))
    if not roots_:
        R.bad(fn, "anchor", "no ROOT_DIR mapping in get_entry", kind="anchor-missing")
    for b, i in roots_:
        g1, _ = guarded(fn, b, lambda g: g.kind == "bool" and g.term[0] == "cmp" and g.term[1] == "Eq" and g.truth is True and ("EMPTY" in tstr(g.term) or g.term[3][:2] == ("c", 0)))
        g2, _ = guarded(fn, b, g_call("Attributes::is_directory", True))
        R.require(g1 and g2, fn, "root-iff-empty-dir", "ROOT_DIR mapping must be guarded by cluster == EMPTY && is_directory()", fn.loc(b, i))
        # no dependence on fat_type
        dep = [g for (gb, gi, g) in all_guards(fn) if "fat_type" in tstr(g.raw) and fn.unreachable_without(b, [(gb, gi)])]
        R.require(not dep, fn, "root-both-fat-types", "the cluster-0-means-root mapping depends on the FAT type (%s); '..' of a first-level directory stores 0 on FAT16 and FAT32 alike" % [repr(g) for g in dep], fn.loc(b, i))
    # cluster source per fat type
    c32 = [(b, t) for b, t in fn.calls() if call_matches(t, ("OnDiskDirEntry::first_cluster_fat32",))]
    c16 = [(b, t) for b, t in fn.calls() if call_matches(t, ("OnDiskDirEntry::first_cluster_fat16",))]
    ok = len(c32) == 1 and len(c16) == 1
    if ok:
        g32, _ = guarded(fn, c32[0][0], lambda g: g.kind == "bool" and g.term[0] == "cmp" and g.term[1] == "Eq" and g.truth is True and "Fat32" in tstr(g.term) and "fat_type" in tstr(g.term))
        g16, _ = guarded(fn, c16[0][0], lambda g: g.kind == "bool" and g.term[0] == "cmp" and g.term[1] == "Eq" and g.truth is False and "Fat32" in tstr(g.term) and "fat_type" in tstr(g.term))
        ok = g32 and g16
    R.require(ok, fn, "cluster-per-fat-type", "get_entry must use first_cluster_fat32 exactly for FatType::Fat32 and first_cluster_fat16 otherwise", fn.loc(0))
    f32 = F.fn("OnDiskDirEntry::first_cluster_fat32")
    rets = [f32.term_of_rvalue(s["rv"], b) for b, i, s in f32.stmts() if s["k"] == "Assign" and s["p"]["l"] == 0 and not s["p"]["proj"]]
    pat = ("agg", "ClusterId", [("bin", "BitOr", ("bin", "Shl", ("call", "From::from", [("call", "first_cluster_hi", "_")]), ("c", 16)), ("call", "From::from", [("call", "first_cluster_lo", "_")]))])
    okp = len(rets) == 1 and tmatch(rets[0], ("agg", "ClusterId", ["$x"])) is not None and "first_cluster_hi" in tstr(rets[0]) and "first_cluster_lo" in tstr(rets[0]) and "Shl" in tstr(rets[0]) and "0x10" in tstr(rets[0])
    R.require(okp, f32, "hi<<16|lo", "first_cluster_fat32 must be (hi << 16) | lo, got %s" % [tstr(r) for r in rets], f32.loc(0))


@rule("MD9x", ["C07", "C08"], floor=1,
      doc="file_is_open answers true under exactly the three identity comparisons (volume handle, entry block, entry offset) and nothing else: an open file stays recognised while its cached entry (size, first cluster, times) differs from the directory")
def md9x(F, R):
    fn = F.fn(VMD + "::file_is_open")
    trues = [(b, i) for b, i, s in fn.stmts() if s["k"] == "Assign" and s["p"]["l"] == 0 and not s["p"]["proj"] and fn.term_of_rvalue(s["rv"], b) == ("c", 1, None)]
    for b, i in trues:
        extra = []
        for (gb, gi, g) in all_guards(fn):
            if not fn.unreachable_without(b, [(gb, gi)]):
                continue
            if g.kind == "bool" and g.term[0] == "cmp":
                names = set()
                for side in (g.term[2], g.term[3]):
                    for s in subterms(side):
                        if s[0] == "place":
                            names |= {e for e in s[2] if isinstance(e, str) and e not in ("*", "0") and not e.startswith("as:")}
                ident = {"raw_volume", "entry_block", "entry_offset"}
                if not (names & ident):
                    extra.append(repr(g))
                elif names - ident - {"entry"}:
                    extra.append(repr(g))
        R.require(not extra, fn, "no-extra-conjunct", "file_is_open additionally requires %s: a handle whose cached entry changed (e.g. first cluster allocated by write, not yet flushed) is no longer recognised as open" % extra, fn.loc(b, i))
    if not trues:
        R.bad(fn, "anchor", "no `true` return", kind="anchor-missing")


@rule("SK2", ["C01"], floor=2,
      doc="find_data_on_disk: a backwards seek restarts the cluster cursor at the file start (start.0 = 0; start.1 = file_start under desired_offset < start.0) and the walk advances the caller's cursor in place (each next_cluster result is stored through `start` before the next lookup), so after Err(EndOfFile) the caller's cursor is the chain tail")
def sk2(F, R):
    fn = F.fn(VMD + "::find_data_on_disk")
    # restart stores
    st0 = st1 = None
    for b, i, s in fn.stmts():
        if s["k"] == "Assign" and s["p"]["proj"]:
            ps = fn.place_str(s["p"])
            v = fn.term_of_rvalue(s["rv"], b)
            if ps == "(*start).0" and v[:2] == ("c", 0):
                st0 = (b, i)
            if ps == "(*start).1" and v[0] == "arg" and v[2] == "file_start":
                st1 = (b, i)
    ok = st0 is not None and st1 is not None
    if ok:
        g = g_cmp("Lt", True, lambda a: a[0] == "arg" and a[2] == "desired_offset", lambda z: tstr(z) == "(*start).0")
        ok = guarded(fn, st0[0], g)[0] and guarded(fn, st1[0], g)[0]
    R.require(ok, fn, "restart", "backwards seek must reset the cursor to (0, file_start) under desired_offset < start.0", fn.loc(0))
    # the first subtraction desired_offset - start.0 is only reached with start.0 <= desired_offset or after the restart
    # in-place advance
    ncs = [(b, t) for b, t in fn.calls() if call_matches(t, ("FatVolume::next_cluster",))]
    okadv = False
    for b, t in ncs:
        cur = tstr(strip_refs(fn.term_of_operand(t["args"][2], b)))
        stores = [(bb, ii) for bb, ii, s in fn.stmts() if s["k"] == "Assign" and s["p"]["proj"] and fn.place_str(s["p"]) == "(*start).1" and has_sub(fn.term_of_rvalue(s["rv"], bb), lambda q: q[0] == "call" and q[3] == b)]
        okadv = cur == "(*start).1" and len(stores) == 1
    R.require(okadv, fn, "advance-in-place", "the FAT walk must read from and store into the caller's cursor `start.1` on every step (a private copy leaves the caller with a stale cursor when the walk ends with EndOfFile)", fn.loc(ncs[0][0]) if ncs else None)
    # caller side: write() links the new cluster after the cursor it passed
    w = F.fn(VM + "::write")
    for b, t in w.calls():
        if call_matches(t, ("FatVolume::alloc_cluster",)):
            prev = w.term_of_operand(t["args"][2], b)
            if prev[0] == "agg" and prev[2] and prev[2].endswith("Option::Some"):
                fd = [(bb, tt) for bb, tt in w.calls() if call_matches(tt, ("find_data_on_disk",))]
                curs = {tstr(strip_refs(w.term_of_operand(tt["args"][2], bb))) for bb, tt in fd}
                pv = tstr(prev[3][0])
                R.require(any(pv.startswith(c) for c in curs), w, "extend-after-cursor", "the extension cluster must be linked after the cursor that find_data_on_disk advanced (got %s, cursors %s)" % (pv, sorted(curs)), w.loc(b))
