"""Event-language engines: path enumeration for loop-free bodies, CFG x DFA product otherwise."""
from collections import deque

from .mir import callee_of, is_log_call, path_matches, strip_generics, tstr, strip_refs


class Guard:
    """Decoded switch edge."""

    __slots__ = ("kind", "term", "truth", "value", "others", "variant", "raw", "line")

    def __repr__(self):
        if self.kind == "bool":
            return "%s%s" % ("" if self.truth else "!", tstr(self.term))
        if self.kind == "variant":
            return "%s is %s" % (tstr(self.term), self.variant)
        if self.kind == "value":
            return "%s == %s" % (tstr(self.term), self.value)
        return "%s not in %s" % (tstr(self.term), self.others)


CMP_NEG = {"Eq": "Ne", "Ne": "Eq", "Lt": "Ge", "Ge": "Lt", "Le": "Gt", "Gt": "Le"}


def norm_bool(term, truth):
    """Normalise a boolean term + truth value: strip Not, turn ne into eq, resolve PartialEq calls.
    Returns (term, truth) with term one of ('cmp', op, a, b) | other term."""
    while True:
        if term[0] == "un" and term[1] == "Not":
            term = term[2]
            truth = not truth
            continue
        if term[0] == "bin" and term[1] in CMP_NEG:
            op, a, b = term[1], term[2], term[3]
            if op == "Ne":
                op = "Eq"
                truth = not truth
            return ("cmp", op, a, b), truth
        if term[0] == "call" and term[1] and (term[1].endswith("PartialEq::ne") or term[1].endswith("PartialEq::eq") or term[1].endswith("::ne") or term[1].endswith("::eq")) and len(term[2]) == 2:
            a, b = strip_refs(term[2][0]), strip_refs(term[2][1])
            if term[1].endswith("ne"):
                truth = not truth
            return ("cmp", "Eq", a, b), truth
        if term[0] == "call" and term[1] and term[1].split("::")[-1] in ("lt", "le", "gt", "ge") and "PartialOrd" in term[1] and len(term[2]) == 2:
            op = {"lt": "Lt", "le": "Le", "gt": "Gt", "ge": "Ge"}[term[1].split("::")[-1]]
            return ("cmp", op, strip_refs(term[2][0]), strip_refs(term[2][1])), truth
        return term, truth


def decode_edge(fn, b, idx):
    """Decode the switch edge (b, idx) into a Guard."""
    t = fn.term(b)
    assert t["k"] == "SwitchInt"
    cond = fn.term_of_operand(t["discr"], b)
    succs = fn.succ(b)
    lab = succs[idx][1][1]
    vals = [v for v, _ in t["targets"]]
    g = Guard()
    g.raw = cond
    g.line = t["sp"]["l0"]
    g.value = lab
    g.others = vals
    g.variant = None
    g.truth = None
    is_bool = t.get("discr_ty") == "bool"
    if is_bool:
        if lab == "otherwise":
            truth = not (0 in vals and 1 not in vals) if vals == [0] else (False if vals == [1] else None)
            if vals == [0]:
                truth = True
            elif vals == [1]:
                truth = False
        else:
            truth = bool(lab)
        term, truth = norm_bool(cond, truth)
        g.kind = "bool"
        g.term = term
        g.truth = truth
        return g
    if cond[0] == "discr":
        names = cond[2]
        g.term = cond[1]
        if lab == "otherwise":
            rest = [n for i, n in enumerate(names) if i not in vals]
            if len(rest) == 1:
                g.kind = "variant"
                g.variant = rest[0]
            else:
                g.kind = "variants"
                g.variant = tuple(rest)
        else:
            g.kind = "variant"
            g.variant = names[lab] if lab < len(names) else str(lab)
        return g
    g.term = cond
    if lab == "otherwise":
        g.kind = "notvalues"
    else:
        g.kind = "value"
    return g


def guards_of(fn, target):
    """Decoded guards of all switch edges that dominate `target` (block)."""
    out = []
    for eg in fn.edge_guards(target):
        out.append(decode_edge(fn, eg["block"], eg["idx"]))
    return out


# ---------------------------------------------------------------------------------------


def enumerate_paths(fn, limit=20000, start=0):
    """All entry->exit block paths of a loop-free body (exit = Return / no successor).
    Each path is a list of (block, edge_idx or None). Raises ValueError on loops."""
    if fn.loops():
        raise ValueError("function %s has loops; use product()" % fn.npath)
    out = []
    stack = [(start, [])]
    while stack:
        b, path = stack.pop()
        succs = fn.succ(b)
        if not succs:
            out.append(path + [(b, None)])
            if len(out) > limit:
                raise ValueError("too many paths in %s" % fn.npath)
            continue
        for i, (s, _lab) in enumerate(succs):
            stack.append((s, path + [(b, i)]))
    return out


def path_events(fn, path, classify):
    """Map a block path to its event list. classify(kind, payload) -> symbol or None with
    kind in {'stmt','term','edge'}."""
    evs = []
    for (b, ei) in path:
        blk = fn.blocks[b]
        for i, s in enumerate(blk["stmts"]):
            e = classify("stmt", (fn, b, i, s))
            if e is not None:
                evs.append(e)
        t = blk["term"]
        e = classify("term", (fn, b, t))
        if e is not None:
            evs.append(e)
        if ei is not None and t["k"] == "SwitchInt":
            e = classify("edge", (fn, b, ei, decode_edge(fn, b, ei)))
            if e is not None:
                evs.append(e)
    return evs


def block_event_lists(fn, classify):
    """Precompute events per block (stmts + term) and per switch edge."""
    bev = {}
    eev = {}
    for b in fn.live_blocks():
        blk = fn.blocks[b]
        evs = []
        for i, s in enumerate(blk["stmts"]):
            e = classify("stmt", (fn, b, i, s))
            if e is not None:
                evs.append(e)
        t = blk["term"]
        e = classify("term", (fn, b, t))
        if e is not None:
            evs.append(e)
        bev[b] = evs
        if t["k"] == "SwitchInt":
            for i in range(len(fn.succ(b))):
                e = classify("edge", (fn, b, i, decode_edge(fn, b, i)))
                if e is not None:
                    eev[(b, i)] = e
    return bev, eev


class Bad:
    def __init__(self, msg):
        self.msg = msg


def product(fn, classify, step, init, at_exit=None, start=0, max_states=400000):
    """Explore CFG x DFA. step(state, event) -> state | Bad. at_exit(state, block) -> None | Bad
    called at Return blocks. Returns list of (msg, trace) with trace = list of events on a
    shortest path to the violation."""
    bev, eev = block_event_lists(fn, classify)
    viol = []
    seen = {}
    dq = deque()
    seen[(start, init)] = None
    dq.append((start, init))
    reported = set()

    def trace_of(node, extra):
        evs = []
        n = node
        chain = []
        while n is not None:
            chain.append(n)
            n = seen[n][0] if seen[n] else None
        chain.reverse()
        for i in range(len(chain) - 1):
            evs.extend(seen[chain[i + 1]][1])
        evs.extend(extra)
        return [_evstr(e) for e in evs]

    while dq:
        node = dq.popleft()
        b, st = node
        cur = st
        done = []
        bad = None
        for e in bev.get(b, []):
            nxt = step(cur, e)
            done.append(e)
            if isinstance(nxt, Bad):
                bad = nxt
                break
            cur = nxt
        if bad:
            key = (bad.msg, b)
            if key not in reported:
                reported.add(key)
                viol.append((bad.msg, trace_of(node, done), b))
            continue
        succs = fn.succ(b)
        if not succs:
            if fn.term(b)["k"] == "Return" and at_exit:
                r = at_exit(cur, b)
                if isinstance(r, Bad):
                    key = (r.msg, b)
                    if key not in reported:
                        reported.add(key)
                        viol.append((r.msg, trace_of(node, done + [("return", b)]), b))
            continue
        for i, (s, _lab) in enumerate(succs):
            c2 = cur
            d2 = list(done)
            if (b, i) in eev:
                e = eev[(b, i)]
                nxt = step(c2, e)
                d2.append(e)
                if isinstance(nxt, Bad):
                    key = (nxt.msg, b, i)
                    if key not in reported:
                        reported.add(key)
                        viol.append((nxt.msg, trace_of(node, d2), b))
                    continue
                c2 = nxt
            nn = (s, c2)
            if nn not in seen:
                seen[nn] = (node, d2)
                dq.append(nn)
                if len(seen) > max_states:
                    raise RuntimeError("product too large for %s" % fn.npath)
    return viol, len(seen)


def _evstr(e):
    if isinstance(e, tuple):
        return " ".join(str(x) for x in e)
    return str(e)


# ---------------------------------------------------------------------------------------
# common classifiers


def call_name(t):
    """Short name of a call's callee, preferring the resolved impl path."""
    c = callee_of(t)
    return c


def is_call_to(t, *names):
    if t["k"] != "Call":
        return False
    c = callee_of(t)
    r = strip_generics(t["resolved"]) if t.get("resolved") else None
    for n in names:
        if (c and path_matches(c, n)) or (r and path_matches(r, n)):
            return True
    return False


# ---------------------------------------------------------------------------------------
# guard queries


def all_guards(fn):
    """[(block, edge idx, Guard)] for all switch edges of fn (cached)."""
    c = getattr(fn, "_all_guards", None)
    if c is None:
        c = [(b, i, decode_edge(fn, b, i)) for (b, i, _s, _lab) in fn.switch_edges()]
        fn._all_guards = c
    return c


def flag_locals(fn):
    """bool locals that only ever get constants (`let mut found = false; .. found = true; break ..; if found {..}`) and are
    tested by a switch: {local: [(block, stmt idx, value)]} (cached)"""
    c = getattr(fn, "_flag_locals", None)
    if c is not None:
        return c
    tested = set()
    for (gb, gi, g) in all_guards(fn):
        t_ = strip_refs(g.term)
        if g.kind == "bool" and t_[0] == "var" and isinstance(t_[1], int):
            tested.add(t_[1])
    out = {}
    for l in tested:
        if fn.locals[l]["ty"] != "bool" or l <= fn.arg_count:
            continue
        sites, ok = [], True
        for d in fn.defs().get(l, []):
            if d[0] != "assign":
                ok = False
                break
            v = fn.term_of_rvalue(d[3], d[1])
            if v[0] != "c" or not isinstance(v[1], (int, bool)):
                ok = False
                break
            sites.append((d[1], d[2], bool(v[1])))
        if ok and sites:
            out[l] = sites
    fn._flag_locals = out
    return out


def reach_flags(fn, starts, cut_edges=(), cut_blocks=()):
    """fn.reach(), but a path carries the values of the constant-only bool flags it has set: the test of a flag whose value
    is known on the path is followed down the matching edge only.  (Sound: such a flag changes only at its own constant
    stores.)  Falls back to fn.reach() when the function has no such flag."""
    flags = flag_locals(fn)
    if not flags:
        return fn.reach(starts, cut_edges, cut_blocks)
    order = sorted(flags)
    stores = {}
    for l, sites in flags.items():
        for (b, i, v) in sites:
            stores.setdefault(b, []).append((i, l, v))
    tests = {}
    for (gb, gi, g) in all_guards(fn):
        t_ = strip_refs(g.term)
        if g.kind == "bool" and t_[0] == "var" and t_[1] in flags:
            tests[(gb, gi)] = (t_[1], bool(g.truth))
    cut_edges, cut_blocks = set(cut_edges), set(cut_blocks)
    unknown = tuple(None for _ in order)
    seen, dq = set(), []
    for s0 in starts:
        if s0 not in cut_blocks:
            seen.add((s0, unknown))
            dq.append((s0, unknown))
    while dq:
        b, st = dq.pop()
        if b in stores:
            st = list(st)
            for (_i, l, v) in sorted(stores[b]):
                st[order.index(l)] = v
            st = tuple(st)
        for i, (s1, _lab) in enumerate(fn.succ(b)):
            if (b, i) in cut_edges or s1 in cut_blocks:
                continue
            tv = tests.get((b, i))
            if tv is not None:
                cur = st[order.index(tv[0])]
                if cur is not None and cur != tv[1]:
                    continue
            if (s1, st) not in seen:
                seen.add((s1, st))
                dq.append((s1, st))
    return {b for (b, _st) in seen}


def guarded(fn, target, pred, frm=0):
    """True iff every path frm->target crosses a switch edge whose Guard satisfies pred.
    Returns (bool, matching edges).  A way around the edges that exists in the graph only (it would need a constant-only
    bool flag to be true and false at once) does not count."""
    edges = [(b, i) for (b, i, g) in all_guards(fn) if pred(g)]
    ok = fn.unreachable_without(target, edges, frm)
    if not ok and flag_locals(fn):
        ok = target not in reach_flags(fn, [frm], cut_edges=edges)
    return ok, edges


def g_call(name, truth=None, argpred=None):
    """Guard: boolean call result `name(..)` is `truth`."""

    def pred(g):
        if g.kind != "bool" or g.term[0] != "call" or not g.term[1] or not path_matches(g.term[1], name):
            return False
        if truth is not None and g.truth != truth:
            return False
        return argpred(g.term[2]) if argpred else True

    return pred


CMP_SWAP = {"Eq": "Eq", "Ne": "Ne", "Lt": "Gt", "Gt": "Lt", "Le": "Ge", "Ge": "Le"}


def cmp_forms(g):
    """All equivalent readings (op, a, b, truth) of a comparison guard: negated operator with the other truth value,
    swapped operands with the mirrored operator."""
    if g.kind == "value" and isinstance(g.value, int):
        # `match x { 5 => .. }`: the arm's edge is taken exactly when x == 5
        op, a, b, t = "Eq", g.term, ("c", g.value, None), True
    elif g.kind == "notvalues" and isinstance(g.others, list) and len(g.others) == 1 and isinstance(g.others[0], int):
        # the `_` arm of a match with one literal arm: x != that literal
        op, a, b, t = "Eq", g.term, ("c", g.others[0], None), False
    elif g.kind != "bool" or g.term[0] != "cmp":
        return []
    else:
        op, a, b, t = g.term[1], g.term[2], g.term[3], bool(g.truth)
    return [(op, a, b, t), (CMP_NEG[op], a, b, not t), (CMP_SWAP[op], b, a, t), (CMP_SWAP[CMP_NEG[op]], b, a, not t)]


def tested_comparisons(g):
    """The elementary comparisons (op, a, b) the predicate of guard g is made of - whichever way the edge goes:
    a cmp guard is one; `(lo..hi).contains(&x)` is x >= lo and x < hi; `(lo..=hi).contains(&x)` is x >= lo and x <= hi."""
    if g.kind != "bool":
        return []
    t = g.term
    if t[0] == "cmp":
        return [(t[1], t[2], t[3])]
    if t[0] == "call" and t[1] and t[1].endswith("::contains") and len(t[2]) == 2:
        r, x = strip_refs(t[2][0]), strip_refs(t[2][1])
        if r[0] == "agg" and r[2] and r[2].endswith(("ops::Range", "ops::Range::Range")) and len(r[3]) == 2:
            return [("Ge", x, r[3][0]), ("Lt", x, r[3][1])]
        if r[0] == "call" and r[1] and r[1].endswith("RangeInclusive::new") and len(r[2]) >= 2:
            return [("Ge", x, r[2][0]), ("Le", x, r[2][1])]
    return []


def g_cmp(op, truth, apred=None, bpred=None):
    """Guard predicate: the edge is taken exactly when `a op b` has the given truth value - however the test is written
    (a < b taken / !(a >= b) / b > a ...)."""
    def pred(g):
        for (o, a, b, t) in cmp_forms(g):
            if o != op or t != bool(truth):
                continue
            if apred and not apred(a):
                continue
            if bpred and not bpred(b):
                continue
            return True
        return False

    return pred


def enum_edge_admits(g, variants, name):
    """Does switch edge g (a test of an enum-typed term) admit the variant `name`?  None when g is not such a test."""
    if g.kind == "variant":
        return g.variant == name
    if g.kind == "variants":
        return name in tuple(g.variant)
    if g.kind == "value" and isinstance(g.value, int):
        return variants.index(name) == g.value
    if g.kind == "notvalues":
        return variants.index(name) not in tuple(g.others)
    if g.kind == "bool" and g.term[0] == "cmp" and g.term[1] == "Eq":
        for x in (g.term[2], g.term[3]):
            x = strip_refs(x)
            if x[0] == "agg" and x[2] and x[2].split("::")[-1] in variants:
                return (x[2].split("::")[-1] == name) == bool(g.truth)
    return None


def specialise_enum(fn, is_x, variants, name):
    """Edges that cannot be taken when the enum-typed term selected by is_x holds variant `name`."""
    cut = []
    for (gb, gi, g) in all_guards(fn):
        if g.kind == "bool" and g.term[0] == "call" and g.term[1] and g.term[1].split("::")[-1] in ("is_none", "is_some", "is_ok", "is_err") and len(g.term[2]) == 1:
            # opt.is_none() / res.is_ok(): a test of the variant spelled as a call
            if not is_x(strip_refs(g.term[2][0])):
                continue
            asked = {"is_none": "None", "is_some": "Some", "is_ok": "Ok", "is_err": "Err"}[g.term[1].split("::")[-1]]
            if asked in variants and ((asked == name) != bool(g.truth)):
                cut.append((gb, gi))
            continue
        if g.kind == "bool" and g.term[0] == "cmp":
            if not (is_x(strip_refs(g.term[2])) or is_x(strip_refs(g.term[3]))):
                continue
        elif not is_x(strip_refs(g.term)):
            continue
        a = enum_edge_admits(g, variants, name)
        if a is False:
            cut.append((gb, gi))
    return resolve_bool_temps(fn, cut)


def _edge_decided_false(g):
    """is the switch edge g untakeable because its subject is a constant?  (True / None = cannot say)"""
    t = strip_refs(g.term)
    if g.kind == "bool":
        if t[0] == "c" and isinstance(t[1], int):
            return bool(t[1]) != bool(g.truth)
        if t[0] == "cmp" and t[2][0] == "c" and t[3][0] == "c" and isinstance(t[2][1], int) and isinstance(t[3][1], int):
            a, b = t[2][1], t[3][1]
            r = {"Eq": a == b, "Ne": a != b, "Lt": a < b, "Le": a <= b, "Gt": a > b, "Ge": a >= b}.get(t[1])
            return None if r is None else (r != bool(g.truth))
        return None
    if g.kind == "value" and t[0] == "c" and isinstance(t[1], int) and isinstance(g.value, int):
        return t[1] != g.value
    if g.kind == "notvalues" and t[0] == "c" and isinstance(t[1], int):
        return t[1] in tuple(g.others)
    if g.kind in ("variant", "variants") and t[0] == "agg" and t[1] == "Adt" and t[2]:
        nm = t[2].split("::")[-1]
        return (nm != g.variant) if g.kind == "variant" else (nm not in tuple(g.variant))
    return None


def restricted_view(fn, cut_edges, rounds=6):
    """A copy of fn in which the given switch edges cannot be taken: they lead nowhere, blocks that become unreachable are
    emptied (so their definitions no longer count: a variable set once per arm of a cut `match` is single-definition in the
    view and its term resolves), tests that a constant now decides are decided too (iterated), and casts / arithmetic of
    constants fold.  Block and local numbers are those of fn.  The view is what fn *is* under the premise the cut expresses
    ("the volume is FAT16"); rules written for per-type arms can be run on it unchanged."""
    import copy
    from .mir import Fn
    raw = copy.deepcopy(fn.raw)
    B = raw["blocks"]
    sink = len(B)
    B.append({"stmts": [], "term": {"k": "Unreachable", "sp": B[0]["term"]["sp"]}, "cleanup": False})

    def redirect(b, i):
        t = B[b]["term"]
        if t["k"] == "SwitchInt":
            if i < len(t["targets"]):
                t["targets"][i] = [t["targets"][i][0], sink]
            else:
                t["otherwise"] = sink
        elif t["k"] in ("Goto", "Call", "Assert", "Drop") and i == 0:
            t["target"] = sink
    for (b, i) in cut_edges:
        redirect(b, i)
    view = None
    for _round in range(rounds):
        # a switch with one way left is no test any more
        for blk in B:
            t = blk["term"]
            if t["k"] == "SwitchInt":
                outs = {tb for _v, tb in t["targets"]} | {t["otherwise"]}
                outs.discard(sink)
                if len(outs) == 1:
                    blk["term"] = {"k": "Goto", "target": outs.pop(), "sp": t["sp"], "decided": True}
        view = Fn(raw, fn.facts)
        view.fold_casts = True
        view.view_of = fn
        live = view.live_blocks()
        for bi, blk in enumerate(B):
            if bi not in live and not blk.get("cleanup") and (blk["stmts"] or blk["term"]["k"] != "Unreachable"):
                blk["stmts"] = []
                blk["term"] = {"k": "Unreachable", "sp": blk["term"]["sp"]}
        view = Fn(raw, fn.facts)
        view.fold_casts = True
        view.view_of = fn
        more = [(b, i) for (b, i, g) in all_guards(view) if view.succ(b)[i][0] != sink and _edge_decided_false(g)]
        if not more:
            break
        for (b, i) in more:
            redirect(b, i)
    return view


def resolve_bool_temps(fn, cut, fold=None):
    """`matches!(..)` and `a || b` are lowered to a bool temporary set in the arms and tested afterwards: once the arms
    that can still be reached all store the same constant, the test of the temporary is decided too (iterated)."""
    cut = list(cut)
    for _round in range(6):
        rs = fn.reach([0], cut_edges=cut)
        grew = False
        for (gb, gi, g) in all_guards(fn):
            t_ = strip_refs(g.term)
            if g.kind == "bool" and t_[0] == "var" and gb in rs and (gb, gi) not in cut:
                def _vals_of(l_, depth_=0):
                    out_ = set()
                    for d in fn.defs().get(l_, []):
                        if d[0] in ("assign", "call") and d[1] in rs:
                            dv = fn.term_of_rvalue(d[3], d[1]) if d[0] == "assign" else fn.call_term(d[2], d[1])
                            dvs = strip_refs(dv)
                            if dv[0] == "c":
                                out_.add(bool(dv[1]))
                            elif dvs[0] == "var" and isinstance(dvs[1], int) and depth_ < 3 and fn.locals[dvs[1]]["ty"] == "bool" and dvs[1] > fn.arg_count:
                                # a copy of another flag (`match (result, may_create) { .. }`: the tuple's field is a copy)
                                out_ |= _vals_of(dvs[1], depth_ + 1)
                            else:
                                fv = fold(dv) if fold else None      # the caller's substitution may decide the defining term
                                out_.add(None if fv is None else bool(fv))
                        elif d[1] in rs:
                            out_.add(None)
                    return out_
                vals = _vals_of(t_[1])
                if len(vals) == 1 and None not in vals and (list(vals)[0] != g.truth):
                    cut.append((gb, gi))
                    grew = True
        if not grew:
            break
    return cut


def try_inner(term):
    """For branch(x) / branch(map_err(x, f)) return x (the fallible call term) else None."""
    if term[0] == "call" and term[1] and term[1].endswith("Try::branch"):
        x = term[2][0]
        while x[0] == "call" and x[1] and (x[1].endswith("Result::map_err") or x[1].endswith("::map_err")):
            x = x[2][0]
        return x
    return None


def g_try_ok(name, argpred=None):
    """Guard: `name(..)?` took the Ok/Continue edge (also accepts a match on the Result's Ok variant)."""

    def pred(g):
        if g.kind != "variant":
            return False
        t = g.term
        if g.variant == "Continue":
            x = try_inner(t)
        elif g.variant == "Ok":
            x = t
            while x[0] == "call" and x[1] and x[1].endswith("::map_err"):
                x = x[2][0]
        else:
            return False
        if x is None or x[0] != "call" or not x[1] or not path_matches(x[1], name):
            return False
        return argpred(x[2]) if argpred else True

    return pred


def failure_edges(fn, call_block):
    """Switch edges taken when the Result of the call in `call_block` is an Err - however it is consumed: `?` (Break of
    Try::branch), a match arm on Err / on a particular error variant, .is_err() true, .is_ok() false.  Edges that test a
    particular error variant are included (they are taken only for failures)."""
    out = []
    is_the_call = lambda q: q[0] == "call" and q[3] == call_block and q[1] and not q[1].endswith(("Try::branch", "Result::is_err", "Result::is_ok", "::map_err"))

    def res_term(t):
        """t is the call's Result itself (through map_err / references / a local holding it)"""
        t = strip_refs(t)
        while t[0] == "call" and t[1] and t[1].endswith("::map_err") and t[2]:
            t = strip_refs(t[2][0])
        return t[0] == "call" and is_the_call(t)
    for (gb, gi, g) in all_guards(fn):
        t = g.term
        if g.kind == "variant":
            if g.variant == "Err" and res_term(t):
                out.append((gb, gi))
            elif g.variant == "Break" and t[0] == "call" and t[1] and t[1].endswith("Try::branch") and res_term(t[2][0]):
                out.append((gb, gi))
            elif g.variant not in ("Ok", "Continue", "Some", "None", "Break", "Err") and t[0] == "place" and any(x in ("as:Err",) for x in t[2] if isinstance(x, str)) and res_term(t[1]):
                out.append((gb, gi))     # a particular error variant of this call's Err payload
        elif g.kind == "bool" and t[0] == "call" and t[1] and len(t[2]) == 1 and res_term(t[2][0]):
            if (t[1].endswith("Result::is_err") and g.truth is True) or (t[1].endswith("Result::is_ok") and g.truth is False):
                out.append((gb, gi))
    return out


def resolve_variant_temps(fn, starts, cut=(), stop_blocks=()):
    """Like resolve_bool_temps for enum-typed locals that carry a decision from one match to a later one
    (`let next = match .. { Ok(n) => Some(n), Err(EndOfFile) => None }; ..; match next { Some(n) => .., None => break }`):
    within the region reachable from `starts` (not passing `stop_blocks`), when every reachable definition of the local is
    an aggregate of one variant, the later tests of that local can only take that variant's edge.  Returns the cut list."""
    cut = list(cut)
    for _round in range(6):
        rs = fn.reach(list(starts), cut_edges=cut, cut_blocks=list(stop_blocks))
        grew = False
        for (gb, gi, g) in all_guards(fn):
            t_ = strip_refs(g.term)
            if g.kind not in ("variant", "variants") or t_[0] != "var" or gb not in rs or (gb, gi) in cut:
                continue
            vs = set()
            for d in fn.defs().get(t_[1], []):
                if d[1] not in rs:
                    continue
                if d[0] == "assign":
                    dv = strip_refs(fn.term_of_rvalue(d[3], d[1]))
                    vs.add(dv[2].split("::")[-1] if dv[0] == "agg" and dv[2] else None)
                else:
                    vs.add(None)
            if len(vs) == 1 and None not in vs:
                only = next(iter(vs))
                admits = (g.variant == only) if g.kind == "variant" else (only in tuple(g.variant))
                if not admits:
                    cut.append((gb, gi))
                    grew = True
        if not grew:
            break
    return cut


def loop_trip_count(fn, loop):
    """The number of trips of a counting loop as a term over values fixed before the loop, for the three ways such loops are
    written: `for _ in a..b` (b - a, returned as ("range", a, b)); a countdown `k = N; while k != 0 / k > 0 { ..; k -= 1 }`
    (("count", N)); a count-up `i = 0; while i < N { ..; i += 1 }` (("count", N)).  None when the loop is none of these
    (several counters, other updates of the counter, data-dependent exits are the caller's business: only `break`-free
    counting is recognised - exits through `?` / return leave the function, not the count)."""
    h, body, backs = loop
    # for-range
    for b in body:
        t = fn.term(b)
        if t["k"] == "Call" and (callee_of(t) or "").endswith("Iterator::next") and "ops::Range<" in t.get("callee_full", "").replace("core::ops::range::", "core::ops::"):
            it = strip_refs(fn.term_of_operand(t["args"][0], b))
            from .dataflow import var_def_terms
            defs = var_def_terms(fn, it[1]) if it[0] == "var" else [it]
            for d in defs:
                d = strip_refs(d)
                while d[0] == "call" and d[1] and d[1].endswith("into_iter") and d[2]:
                    d = strip_refs(d[2][0])
                if d[0] == "agg" and d[2] and d[2].endswith(("ops::Range", "ops::Range::Range")) and len(d[3]) == 2:
                    return ("range", d[3][0], d[3][1])
            return None
    # counters: locals with exactly one definition outside the loop and one inside of the form k = k -/+ 1
    for (gb, gi, g) in all_guards(fn):
        if gb not in body or fn.succ(gb)[gi][0] in body:
            continue                                # not a loop-exit edge
        if g.kind == "value":
            forms = [("Eq", g.term, ("c", g.value, None), True)]
        else:
            forms = cmp_forms(g)
        for (op, a, z, truth) in forms:
            a0, z0 = strip_refs(a), strip_refs(z)
            if a0[0] != "var":
                continue
            k = a0[1]
            ds = fn.defs().get(k, [])
            ins = [d for d in ds if d[1] in body]
            outs = [d for d in ds if d[1] not in body]
            if len(ins) != 1 or len(outs) != 1 or ins[0][0] != "assign" or outs[0][0] != "assign":
                continue
            upd = fn.term_of_rvalue(ins[0][3], ins[0][1])
            init = fn.term_of_rvalue(outs[0][3], outs[0][1])
            step = None
            if upd[0] == "bin" and upd[1] in ("Sub", "Add") and strip_refs(upd[2]) == a0 and upd[3][:2] == ("c", 1):
                step = upd[1]
            if step is None or not fn.dominates(gb, ins[0][1]):
                continue
            # exit taken exactly when k == 0 (countdown) / when !(k < N) (count-up)
            if step == "Sub" and z0[:2] == ("c", 0) and ((op == "Eq" and truth) or (op == "Le" and truth) or (op == "Gt" and not truth) or (op == "Ne" and not truth)):
                return ("count", init)
            if step == "Add" and init[:2] == ("c", 0) and ((op == "Lt" and not truth) or (op == "Ge" and truth)):
                return ("count", z)
    return None


def implying_edges(fn, pred):
    """Switch edges on which the fact tested by `pred` holds.  Direct: the edge's own guard satisfies pred.  Carried: the edge
    tests a bool / Option local (a && b as a value, matches!(..), the result of a lowered Option::filter ..) and every
    definition that can send control down this edge is a comparison satisfying pred taken as a value, or is itself reachable
    only through implying edges.  (Staleness - the tested quantity changing between test and use - is the caller's concern:
    the temporaries this is for are set and consumed within one evaluation of a condition.)"""
    E = set((gb, gi) for (gb, gi, g) in all_guards(fn) if pred(g))
    low = fn.raw.get("lowered_calls", {})
    for _round in range(5):
        grew = False
        rs = fn.reach([0], cut_edges=list(E))
        for (gb, gi, g) in all_guards(fn):
            if (gb, gi) in E or g.kind not in ("bool", "variant"):
                continue
            t_ = strip_refs(g.term)
            if t_[0] == "var":
                l = t_[1]
            elif t_[0] == "call":
                # (the result of a lowered adaptor - `opt.map_or(false, |x| test(x))` kept in a flag - is a local with the call as its term)
                ls = [k for k, v in low.items() if v["block"] == t_[3] and v["term"].get("callee") and t_[1] and strip_generics(v["term"]["callee"]) == t_[1]]
                if len(ls) != 1:
                    continue
                l = ls[0]
            else:
                continue
            ok, some = True, False
            for d in fn.defs().get(l, []):
                if d[0] not in ("assign", "call"):
                    ok = False
                    break
                dv = strip_refs(fn.term_of_rvalue(d[3], d[1])) if d[0] == "assign" else fn.call_term(d[2], d[1])
                if g.kind == "bool":
                    if dv[0] == "c":
                        if bool(dv[1]) != bool(g.truth):
                            continue                    # this definition cannot take the edge
                    else:
                        nt, tr = norm_bool(dv, bool(g.truth))
                        pg = Guard()
                        pg.kind, pg.term, pg.truth, pg.value, pg.others, pg.variant, pg.raw, pg.line = "bool", nt, tr, None, None, None, None, None
                        if pred(pg):
                            some = True
                            continue
                else:
                    vn = dv[2].split("::")[-1] if dv[0] == "agg" and dv[2] else None
                    if vn is not None and vn != g.variant:
                        continue
                if d[1] in rs:
                    ok = False
                    break
                some = True
            if ok and some:
                E.add((gb, gi))
                grew = True
        if not grew:
            break
    return E


def guarded_through(fn, target, pred, depth=0):
    """guarded(), also when the decision is carried in a local: target lies behind `V is Some` / `flag == true` and every
    definition that gives V that variant / value is itself (recursively) behind an edge satisfying pred
    (`let mut found = None; for .. { if test { found = Some(i); break } } let Some(i) = found else { return }; <target>`)."""
    if guarded(fn, target, pred)[0]:
        return True
    if depth > 3:
        return False
    for (gb, gi, g) in all_guards(fn):
        t_ = strip_refs(g.term)
        if t_[0] != "var" or not fn.unreachable_without(target, [(gb, gi)]):
            continue
        sites = []
        for d in fn.defs().get(t_[1], []):
            if d[0] != "assign":
                if g.kind == "variant":
                    sites.append((d[1], None))
                continue
            dv = strip_refs(fn.term_of_rvalue(d[3], d[1]))
            if g.kind == "variant":
                vn = dv[2].split("::")[-1] if dv[0] == "agg" and dv[2] else None
                if vn is None or vn == g.variant:
                    sites.append((d[1], vn))
            elif g.kind == "bool":
                if dv[0] != "c" or bool(dv[1]) == bool(g.truth):
                    sites.append((d[1], dv[0] == "c"))
        if g.kind in ("variant", "bool") and sites and all(k for _b, k in sites) and all(guarded_through(fn, b, pred, depth + 1) for b, _k in sites):
            return True
    return False
