"""BC1-BC5: block cache protocol (src/blockdevice.rs). Engines: EV (path language), who-may-call."""
from .framework import rule
from .ev import enumerate_paths, path_events, is_call_to
from .mir import tstr, callee_of, path_matches, strip_generics, rvalue_places

CACHE = "blockdevice::BlockCache"


def _self_field(fn, place, name):
    p = fn.canon_place(place)
    pr = p["proj"]
    return p["l"] == 1 and len(pr) == 2 and pr[0][0] == "deref" and pr[1][0] == "field" and pr[1][2] == name


def _is_block0(t):
    """&[mut] (*self).block[0]"""
    s = tstr(t)
    return s in ("&(*self).block[0]", "&&(*self).block[0]")


def cache_classifier(kind, payload):
    if kind == "stmt":
        fn, b, i, s = payload
        if s["k"] != "Assign":
            return None
        if _self_field(fn, s["p"], "block_idx"):
            v = fn.term_of_rvalue(s["rv"], b)
            if v[0] == "agg" and v[2] and v[2].endswith("Option::None"):
                return ("tag", "None")
            if v[0] == "agg" and v[2] and v[2].endswith("Option::Some"):
                return ("tag", "Some(%s)" % tstr(v[3][0]))
            return ("tag", "other:" + tstr(v))
        p = s["p"]
        if p["l"] == 0 and not p["proj"]:
            v = fn.term_of_rvalue(s["rv"], b)
            if v[0] == "agg" and v[2] and v[2].endswith("Result::Ok"):
                return ("ret", "Ok(%s)" % tstr(v[3][0]))
            if v[0] == "agg" and v[2] and v[2].endswith("Result::Err"):
                return ("ret", "Err(%s)" % tstr(v[3][0]))
            return ("ret", tstr(v))
        if fn.canon_place(p)["l"] == 1 and p["proj"]:
            return ("store", fn.place_str(p))
        return None
    if kind == "term":
        fn, b, t = payload
        if t["k"] == "Call":
            c = callee_of(t)
            if c and path_matches(c, "BlockDevice::read"):
                a = [fn.term_of_operand(x, b) for x in t["args"]]
                return ("devread", tstr(a[0]), tstr(a[1]), tstr(a[2]))
            if c and path_matches(c, "BlockDevice::write"):
                a = [fn.term_of_operand(x, b) for x in t["args"]]
                ret = "->ret" if (t["dest"]["l"] == 0 and not t["dest"]["proj"]) else ""
                return ("devwrite" + ret, tstr(a[0]), tstr(a[1]), tstr(a[2]))
            if c and c.endswith("FromResidual::from_residual") and t["dest"]["l"] == 0:
                return ("ret", "residual")
            if c and c.endswith("::fill"):
                a = [fn.term_of_operand(x, b) for x in t["args"]]
                return ("fill", tstr(a[0]), tstr(a[1]))
            if c and (c.endswith("Try::branch") or c.endswith("::expect") or c.endswith("DerefMut::deref_mut") or c.endswith("PartialEq::ne") or c.endswith("PartialEq::eq")):
                return None
            return ("call", c)
        return None
    if kind == "edge":
        fn, b, i, g = payload
        if g.kind == "bool" and g.term[0] == "cmp" and g.term[1] == "Eq":
            a, bb = tstr(g.term[2]), tstr(g.term[3])
            return ("cmp", a, bb, "eq" if g.truth else "ne")
        if g.kind == "variant" and g.term[0] == "call" and g.term[1].endswith("Try::branch"):
            inner = g.term[2][0]
            what = inner[1].split("::")[-1] if inner[0] == "call" and inner[1] else "?"
            return ("try", what, g.variant)
        return ("edge", repr(g))
    return None


def _paths(fn):
    out = []
    for p in enumerate_paths(fn):
        last = p[-1][0]
        if fn.term(last)["k"] != "Return":
            continue  # Unreachable arms of `?`
        out.append(path_events(fn, p, cache_classifier))
    return out


@rule("BC1", ["C01", "C04", "C09", "C11"], floor=6,
      doc="BlockCache::read/read_mut: hit iff tag == Some(arg); miss path stores tag None, then device read of arg into self.block, tag Some(arg) only after the read's Ok; returns &block[0]; device error is returned")
def bc1(F, R):
    for name in ("read", "read_mut"):
        fn = F.fn(CACHE + "::" + name)
        idx = fn.local_name(2) or "_2"
        allowed = {
            "hit": [("cmp", "(*self).block_idx", "Some{%s}" % idx, "eq"), ("ret", "Ok(&(*self).block[0])")],
            "miss-ok": [
                ("cmp", "(*self).block_idx", "Some{%s}" % idx, "ne"),
                ("tag", "None"),
                ("devread", "&(*self).block_device", "&(*self).block", idx),
                ("try", "read", "Continue"),
                ("tag", "Some(%s)" % idx),
                ("ret", "Ok(&(*self).block[0])"),
            ],
            "miss-err": [
                ("cmp", "(*self).block_idx", "Some{%s}" % idx, "ne"),
                ("tag", "None"),
                ("devread", "&(*self).block_device", "&(*self).block", idx),
                ("try", "read", "Break"),
                ("ret", "residual"),
            ],
        }
        found = set()
        for evs in _paths(fn):
            hit = None
            for k, seq in allowed.items():
                if evs == seq:
                    hit = k
            if hit:
                found.add(hit)
                R.ok(fn, "path:" + hit, "event sequence %s" % evs, fn.loc(0))
            else:
                R.bad(fn, "path:" + " ".join(e[0] + ":" + e[1] for e in evs), "path violates the cache load protocol: %s" % (evs,), fn.loc(0), trace=[str(e) for e in evs])
        for k in allowed:
            if k not in found:
                R.bad(fn, "missing-path:" + k, "expected protocol path '%s' does not exist" % k, fn.loc(0))


@rule("BC2", ["C01", "C04"], floor=1,
      doc="BlockCache::blank_mut: stores tag Some(arg), zero-fills block[0], returns &mut block[0] on its only path")
def bc2(F, R):
    fn = F.fn(CACHE + "::blank_mut")
    idx = fn.local_name(2) or "_2"
    want = [("tag", "Some(%s)" % idx), ("fill", "&(*deref_mut(&(*self).block[0]))", "0"), ("ret", "&(*self).block[0]")]
    paths = _paths(fn)
    for evs in paths:
        # order of tag store and fill is irrelevant (no device call in between)
        if sorted(evs[:2]) == sorted(want[:2]) and evs[2:] == want[2:]:
            R.ok(fn, "path", "event sequence %s" % evs, fn.loc(0))
        else:
            R.bad(fn, "path:" + " ".join(e[0] + ":" + e[1] for e in evs), "blank_mut must tag Some(arg), zero block[0] and return it; got %s" % (evs,), fn.loc(0))
    if not paths:
        R.bad(fn, "nopath", "no return path", fn.loc(0))


@rule("BC3", ["C01", "C09"], floor=2,
      doc="BlockCache::block_device invalidates the tag before handing out &mut D; no other BlockCache method returns a reference to the device")
def bc3(F, R):
    fn = F.fn(CACHE + "::block_device")
    for evs in _paths(fn):
        if evs == [("tag", "None"), ("ret", "&(*self).block_device")]:
            R.ok(fn, "path", str(evs), fn.loc(0))
        else:
            R.bad(fn, "path:" + " ".join(e[0] + ":" + e[1] for e in evs), "block_device() must store tag None and return the device; got %s" % (evs,), fn.loc(0))
    # return-type scan
    n = 0
    for f in F.fns:
        if f.kind == "Closure" or not f.npath.startswith(CACHE + "::"):
            continue
        n += 1
        out = f.raw.get("output", "")
        short = f.npath.split("::")[-1]
        if out in ("&mut D", "&D") and short != "block_device":
            R.bad(f, "returns-device-ref", "%s returns %s without invalidating the cache tag" % (f.npath, out), f.loc(0))
        elif out == "D" and not (short == "free" and f.raw["inputs"] and not f.raw["inputs"][0].startswith("&")):
            R.bad(f, "returns-device", "%s returns the device by value without consuming the cache" % f.npath, f.loc(0))
    R.ok(None, "return-type-scan", "%d BlockCache methods scanned" % n)


@rule("BC4", ["C04", "C10", "C16"], floor=3,
      doc="write_back writes self.block to the tagged index; write_back_with_duplicate writes the tagged index first and the duplicate index only after that write's Ok; every device error is returned")
def bc4(F, R):
    fn = F.fn(CACHE + "::write_back")
    blk = "&(*self).block"
    dev = "&(*self).block_device"
    tagidx = "expect((*self).block_idx, &(*write_back with no read))"
    for evs in _paths(fn):
        ok = len(evs) == 1 and evs[0][0] == "devwrite->ret" and evs[0][1] == dev and evs[0][2] == blk and evs[0][3].startswith("expect((*self).block_idx")
        R.require(ok, fn, "path", "write_back path: %s" % (evs,), fn.loc(0))
    fn = F.fn(CACHE + "::write_back_with_duplicate")
    dup = fn.local_name(2) or "_2"
    found = set()
    for evs in _paths(fn):
        e = [(x[0],) + tuple(y if not y.startswith("expect((*self).block_idx") else "TAG" for y in x[1:]) for x in evs]
        w1 = ("devwrite", dev, blk, "TAG")
        w2 = ("devwrite", dev, blk, dup)
        if e == [w1, ("try", "write", "Break"), ("ret", "residual")]:
            found.add("err1")
        elif e == [w1, ("try", "write", "Continue"), w2, ("try", "write", "Break"), ("ret", "residual")]:
            found.add("err2")
        elif e == [w1, ("try", "write", "Continue"), w2, ("try", "write", "Continue"), ("ret", "Ok(Tuple{})")]:
            found.add("ok")
        elif e == [w1, ("try", "write", "Continue"), ("devwrite->ret",) + w2[1:]]:
            # the duplicate write's own Result is the function's result: its error is returned, its Ok is the Ok
            found.add("ok")
            found.add("err2")
        else:
            R.bad(fn, "path:" + " ".join(x[0] for x in e), "path violates primary-then-duplicate protocol: %s" % (evs,), fn.loc(0))
            continue
        R.ok(fn, "path", str(evs), fn.loc(0))
    for k in ("err1", "err2", "ok"):
        if k not in found:
            R.bad(fn, "missing-path:" + k, "expected path %s missing" % k, fn.loc(0))


@rule("BC5", ["C01", "C04", "C09"], floor=7,
      doc="who-may-call: <D as BlockDevice>::read/write are called only inside impl BlockCache; BlockCache::block_device only from VolumeManager::device; the cache's fields are touched only by impl BlockCache")
def bc5(F, R):
    for f in F.fns:
        for b, t in f.calls():
            c = callee_of(t)
            if c and (path_matches(c, "blockdevice::BlockDevice::read") or path_matches(c, "blockdevice::BlockDevice::write")):
                inside = f.npath.startswith(CACHE + "::")
                R.require(inside, f, "devcall:" + c.split("::")[-1], "device %s called from %s" % (c.split("::")[-1], f.npath), f.loc(b))
            if c and path_matches(c, CACHE + "::block_device"):
                R.require(f.npath.endswith("VolumeManager::device"), f, "block_device-caller", "BlockCache::block_device called from %s" % f.npath, f.loc(b))
    # field scan
    n = 0
    for f in F.fns:
        if f.npath.startswith(CACHE + "::") or f.npath.startswith("<blockdevice::BlockCache"):
            continue
        for b, i, s in f.stmts():
            places = []
            if s["k"] == "Assign":
                places.append(s["p"])
                places.extend(rvalue_places(s["rv"]))
            for p in places:
                n += 1
                names = [e[2] for e in p["proj"] if e[0] == "field"]
                if "block_idx" in names:
                    R.bad(f, "field:block_idx", "cache tag accessed outside impl BlockCache", f.loc(b, i))
    R.ok(None, "field-scan", "%d places scanned outside impl BlockCache" % n)
