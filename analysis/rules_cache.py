"""BC1-BC5: block cache protocol (src/blockdevice.rs). Engines: EV (path language), who-may-call."""
from .framework import rule
from .ev import enumerate_paths, path_events, is_call_to
from .mir import tstr, callee_of, path_matches, strip_generics, rvalue_places

CACHE = "blockdevice::BlockCache"


def _self_field(fn, place, name):
    p = fn.canon_place(place)
    pr = p["proj"]
    return p["l"] == 1 and len(pr) == 2 and pr[0][0] == "deref" and pr[1][0] == "field" and pr[1][2] == name


def _is_block0(t):
    """&[mut] (*self).block[0]"""
    s = tstr(t)
    return s in ("&(*self).block[0]", "&&(*self).block[0]")


def cache_classifier(kind, payload):
    if kind == "stmt":
        fn, b, i, s = payload
        if s["k"] != "Assign":
            return None
        if _self_field(fn, s["p"], "block_idx"):
            v = fn.term_of_rvalue(s["rv"], b)
            if v[0] == "agg" and v[2] and v[2].endswith("Option::None"):
                return ("tag", "None")
            if v[0] == "agg" and v[2] and v[2].endswith("Option::Some"):
                return ("tag", "Some(%s)" % tstr(v[3][0]))
            return ("tag", "other:" + tstr(v))
        p = s["p"]
        if p["l"] == 0 and not p["proj"]:
            v = fn.term_of_rvalue(s["rv"], b)
            if v[0] == "agg" and v[2] and v[2].endswith("Result::Ok"):
                return ("ret", "Ok(%s)" % tstr(v[3][0]))
            if v[0] == "agg" and v[2] and v[2].endswith("Result::Err"):
                return ("ret", "Err(%s)" % tstr(v[3][0]))
            return ("ret", tstr(v))
        if fn.canon_place(p)["l"] == 1 and p["proj"]:
            return ("store", fn.place_str(p))
        return None
    if kind == "term":
        fn, b, t = payload
        if t["k"] == "Call":
            c = callee_of(t)
            if c and path_matches(c, "BlockDevice::read"):
                a = [fn.term_of_operand(x, b) for x in t["args"]]
                return ("devread", tstr(a[0]), tstr(a[1]), tstr(a[2]))
            if c and path_matches(c, "BlockDevice::write"):
                a = [fn.term_of_operand(x, b) for x in t["args"]]
                ret = "->ret" if (t["dest"]["l"] == 0 and not t["dest"]["proj"]) else ""
                return ("devwrite" + ret, tstr(a[0]), tstr(a[1]), tstr(a[2]))
            if c and c.endswith("FromResidual::from_residual") and t["dest"]["l"] == 0:
                return ("ret", "residual")
            if c and c.endswith("::fill"):
                a = [fn.term_of_operand(x, b) for x in t["args"]]
                return ("fill", tstr(a[0]), tstr(a[1]))
            if c and (c.endswith("Try::branch") or c.endswith("::expect") or c.endswith("DerefMut::deref_mut") or c.endswith("PartialEq::ne") or c.endswith("PartialEq::eq")):
                return None
            return ("call", c)
        return None
    if kind == "edge":
        fn, b, i, g = payload
        if g.kind == "bool" and g.term[0] == "cmp" and g.term[1] == "Eq":
            a, bb = tstr(g.term[2]), tstr(g.term[3])
            return ("cmp", a, bb, "eq" if g.truth else "ne")
        if g.kind == "variant" and g.term[0] == "call" and g.term[1].endswith("Try::branch"):
            inner = g.term[2][0]
            what = inner[1].split("::")[-1] if inner[0] == "call" and inner[1] else "?"
            return ("try", what, g.variant)
        return ("edge", repr(g))
    return None


def _paths(fn):
    out = []
    for p in enumerate_paths(fn):
        last = p[-1][0]
        if fn.term(last)["k"] != "Return":
            continue  # Unreachable arms of `?`
        out.append(path_events(fn, p, cache_classifier))
    return out


def _cache_eval(F, name, tag, extra):
    """Evaluate BlockCache::<name> on a cache whose tag is `tag` (None / block number) with block-number arguments `extra`,
    the device's read / write modelled as events that succeed or fail.  -> list of outcomes
    (device events, result kind, tag afterwards, returned pointer target | error token, block bytes), obligations that failed."""
    from .absint import Interp, State
    from .absval import sym_int, is_int, TOP, is_ptr, const, UNIT, agg, arr, is_agg, int_const
    from .stdmodel import ok, err, slice_view
    A = F.adts["blockdevice::BlockCache"]
    names = [f["name"] for f in A["variants"][0]["fields"]]
    bidx = lambda v: agg("struct", "blockdevice::BlockIdx", 0, [const(v, 32)])

    def dev(kind):
        def m(I, st, a, ctx):
            sv = slice_view(I, st, a[1])
            idx = a[2]
            ev = (kind, int_const(idx[4][0]) if is_agg(idx) and is_int(idx[4][0]) else None, sv[0] if sv else None)
            s_ok, s_err = st, st.fork()
            n = 0
            for s_, tagv in ((s_ok, "ok"), (s_err, "err")):
                fr = s_.frames.setdefault(-7, {})
                fr["log"] = fr.get("log", ()) + (ev + (tagv,),)
                n = len(fr["log"])
            return [(ok(UNIT), s_ok), (err(agg("struct", "DeviceErrorToken", 0, [const(n, 8)])), s_err)]
        return m
    I = Interp(F, mode="bv", max_paths=400, models={"blockdevice::BlockDevice::read": dev("read"), "blockdevice::BlockDevice::write": dev("write")})
    st = State()
    block = agg("struct", "blockdevice::Block", 0, [arr([sym_int(I.vars, "m%d" % k, 8) for k in range(512)])])
    opt = agg("enum", "core::option::Option", 0, []) if tag is None else agg("enum", "core::option::Option", 1, [bidx(tag)])
    vals = {"block_device": TOP, "block": arr([block]), "block_idx": opt}
    cell = I.heap_alloc(st, agg("struct", "blockdevice::BlockCache", 0, [vals.get(n_, TOP) for n_ in names]))      # any further field: unknown
    fn = F.fn(CACHE + "::" + name)
    outs = I.run(fn, [cell] + [bidx(x) for x in extra], st, 0)
    res = []
    for rv, s2 in outs:
        self_v = I.read_loc(s2, (cell[1], cell[2], cell[3], None))
        tagv = self_v[4][names.index("block_idx")]
        tg = "?" if not is_agg(tagv) or tagv[3] is None else (None if tagv[3] == 0 else int_const(tagv[4][0][4][0]))
        blk = self_v[4][names.index("block")]
        bytes_ = None
        try:
            bytes_ = [int_const(x) if is_int(x) else None for x in blk[1][0][4][0][1]]
        except Exception:  # noqa
            pass
        payload = None
        if is_agg(rv) and rv[1] == "enum" and rv[3] is not None:
            kind = "ok" if rv[3] == 0 else "err"
            payload = rv[4][0] if rv[4] else None
        elif is_ptr(rv):
            kind, payload = "ptr", rv
        else:
            kind = "?"
        if is_ptr(payload):
            payload = ("ptr", payload[1] == cell[1] and payload[2] == cell[2], tuple(payload[3]))
        elif is_agg(payload) and payload[2] == "DeviceErrorToken":
            payload = ("deverr", int_const(payload[4][0]))
        res.append({"log": s2.frames.get(-7, {}).get("log", ()), "kind": kind, "tag": tg, "payload": payload, "zero": bytes_ is not None and all(b == 0 for b in bytes_), "block_loc": (cell[1], cell[2], (("f", names.index("block")),))})
    bad = [v["detail"] for k, v in I.obl.items.items() if v["bad"] and "expect" not in str(k)]
    return res, bad


def _is_block0(payload, names_idx=1):
    return isinstance(payload, tuple) and payload and payload[0] == "ptr" and payload[1] and payload[2][:1] == (("f", names_idx),)


@rule("BC1", ["C01", "C04", "C09", "C11"], floor=6,
      doc="BlockCache::read/read_mut, decided by evaluating them (tag None / Some(arg) / Some(other), the device's read succeeding or failing): a hit touches no device and returns &block[0]; a miss issues exactly one device read of arg into self.block, and ends with tag Some(arg) and &block[0] when the read succeeded, with tag None and the device's own error when it failed (never a stale tag over a clobbered buffer)")
def bc1(F, R):
    from .absint import Undecided
    bi = [f["name"] for f in F.adts["blockdevice::BlockCache"]["variants"][0]["fields"]].index("block")
    for name in ("read", "read_mut"):
        fn = F.fn(CACHE + "::" + name)
        for tag in (7, 9, None):
            key = "%s:tag=%s" % (name, "same" if tag == 7 else ("other" if tag == 9 else "none"))
            try:
                res, bad = _cache_eval(F, name, tag, [7])
            except Undecided as e:
                R.bad(fn, key, "cannot evaluate %s: %s" % (name, e), fn.loc(0))
                continue
            problems = list(bad[:1])
            if tag == 7:
                if not (len(res) == 1 and res[0]["log"] == () and res[0]["kind"] == "ok" and res[0]["tag"] == 7 and _is_block0(res[0]["payload"], bi)):
                    problems.append("a cache hit must return &block[0] without touching the device; outcomes: %s" % [(r["log"], r["kind"], r["tag"]) for r in res])
            else:
                oks = [r for r in res if r["kind"] == "ok"]
                ers = [r for r in res if r["kind"] == "err"]
                okp = len(oks) == 1 and len(ers) == 1 and len(res) == 2
                for r in res:
                    okp = okp and len(r["log"]) == 1 and r["log"][0][0] == "read" and r["log"][0][1] == 7 and r["log"][0][2] == r["block_loc"]
                if okp:
                    okp = oks[0]["log"][0][3] == "ok" and oks[0]["tag"] == 7 and _is_block0(oks[0]["payload"], bi)
                    okp = okp and ers[0]["log"][0][3] == "err" and ers[0]["tag"] is None and ers[0]["payload"] == ("deverr", 1)
                if not okp:
                    problems.append("a miss must read block arg once into self.block; Ok -> tag Some(arg), &block[0]; Err -> tag None, the device's error; outcomes: %s" % [(r["log"], r["kind"], r["tag"], r["payload"]) for r in res])
            R.require(not problems, fn, key, "; ".join(str(x) for x in problems)[:600], fn.loc(0), okdetail="%s with tag %s behaves as specified" % (name, tag))


def _zero_loop_blank(fn):
    """True when blank_mut is: tag := Some(arg); for b in self.block[0](.contents).iter_mut() { *b = 0 }; return &mut block[0]
    - with no device call and no other store into the block; else a string saying what differs."""
    from .mir import strip_refs
    from .dataflow import var_def_terms
    loops = fn.loops()
    if len(loops) != 1:
        return "expected one clearing loop, found %d" % len(loops)
    h, body, backs = loops[0]
    nx = [(b, t) for b, t in fn.calls() if b in body and (callee_of(t) or "").endswith("Iterator::next")]
    if len(nx) != 1 or "IterMut<'_, u8>" not in nx[0][1].get("callee_full", "").replace("core::slice::iter::", "").replace("core::slice::", "") and "IterMut" not in nx[0][1].get("callee_full", ""):
        return "the loop is not driven by a slice iter_mut()"
    itv = strip_refs(fn.term_of_operand(nx[0][1]["args"][0], nx[0][0]))
    defs = var_def_terms(fn, itv[1]) if itv[0] == "var" else [itv]
    src = tstr(defs[0]) if len(defs) == 1 else ""
    if not ("iter_mut(" in src and "block" in src and "Range" not in src and "index" not in src.replace("index_mut(&(*self).block", "")):
        return "the iterator does not run over the whole of block[0]: %s" % src[:80]
    stores = [(b, i, s) for b, i, s in fn.stmts() if s["k"] == "Assign" and s["p"]["proj"] and any(e[0] == "deref" for e in s["p"]["proj"]) and b in body]
    if len(stores) != 1 or fn.term_of_rvalue(stores[0][2]["rv"], stores[0][0])[:2] != ("c", 0):
        return "the loop body does not just store 0 through the item"
    if any(path_matches(callee_of(t) or "", "BlockDevice::read") or path_matches(callee_of(t) or "", "BlockDevice::write") for b, t in fn.calls()):
        return "device traffic in blank_mut"
    tags = [(b, fn.term_of_rvalue(s["rv"], b)) for b, i, s in fn.stmts() if s["k"] == "Assign" and _self_field(fn, s["p"], "block_idx")]
    if len(tags) != 1 or not (tags[0][1][0] == "agg" and (tags[0][1][2] or "").endswith("Option::Some") and strip_refs(tags[0][1][3][0])[:2] == ("arg", 2)):
        return "the tag is not set to Some(arg) exactly once"
    rets = [fn.term_of_rvalue(d[3], d[1]) if d[0] == "assign" else fn.call_term(d[2], d[1]) for d in fn.defs().get(0, [])]
    if len(rets) != 1 or "block" not in tstr(rets[0]):
        return "does not return the block"
    return True


@rule("BC2", ["C01", "C04"], floor=1,
      doc="BlockCache::blank_mut (evaluated): no device traffic, tag Some(arg), all 512 bytes of block[0] zero, returns &mut block[0]")
def bc2(F, R):
    from .absint import Undecided
    fn = F.fn(CACHE + "::blank_mut")
    bi = [f["name"] for f in F.adts["blockdevice::BlockCache"]["variants"][0]["fields"]].index("block")
    for tag in (9, None):
        try:
            res, bad = _cache_eval(F, "blank_mut", tag, [7])
        except Undecided as e:
            # a byte-by-byte clearing loop is beyond the evaluation (it would be unrolled per element): recognise the idiom
            # `for b in <all of block[0]>.iter_mut() { *b = 0 }` and check the rest of the function around it
            okl = _zero_loop_blank(fn)
            R.require(okl is True, fn, "path:tag=%s" % tag, "cannot evaluate blank_mut (%s) and it is not the plain clear-every-byte loop: %s" % (e, okl), fn.loc(0))
            continue
        ok = len(res) == 1 and res[0]["log"] == () and res[0]["tag"] == 7 and res[0]["zero"] and res[0]["kind"] == "ptr" and _is_block0(res[0]["payload"], bi) and not bad
        R.require(ok, fn, "path:tag=%s" % tag, "blank_mut must tag Some(arg), zero all of block[0] and return it without device traffic; outcomes %s %s" % ([(r["log"], r["kind"], r["tag"], r["zero"]) for r in res], bad[:1]), fn.loc(0))


@rule("BC3", ["C01", "C09"], floor=2,
      doc="BlockCache::block_device invalidates the tag before handing out &mut D; no other BlockCache method returns a reference to the device")
def bc3(F, R):
    fn = F.fn(CACHE + "::block_device")
    for evs in _paths(fn):
        if evs == [("tag", "None"), ("ret", "&(*self).block_device")]:
            R.ok(fn, "path", str(evs), fn.loc(0))
        else:
            R.bad(fn, "path:" + " ".join(e[0] + ":" + e[1] for e in evs), "block_device() must store tag None and return the device; got %s" % (evs,), fn.loc(0))
    # return-type scan
    n = 0
    for f in F.fns:
        if f.kind == "Closure" or not f.npath.startswith(CACHE + "::"):
            continue
        n += 1
        out = f.raw.get("output", "")
        short = f.npath.split("::")[-1]
        if out in ("&mut D", "&D") and short != "block_device":
            R.bad(f, "returns-device-ref", "%s returns %s without invalidating the cache tag" % (f.npath, out), f.loc(0))
        elif out == "D" and not (short == "free" and f.raw["inputs"] and not f.raw["inputs"][0].startswith("&")):
            R.bad(f, "returns-device", "%s returns the device by value without consuming the cache" % f.npath, f.loc(0))
    R.ok(None, "return-type-scan", "%d BlockCache methods scanned" % n)


@rule("BC4", ["C04", "C10", "C16"], floor=3,
      doc="write_back / write_back_with_duplicate, evaluated with the device's writes succeeding or failing: write_back writes self.block to the tagged index once and returns the device's result; write_back_with_duplicate writes the tagged index first, the duplicate only after that write's Ok, and returns the first error; the tag is left alone")
def bc4(F, R):
    from .absint import Undecided
    fn = F.fn(CACHE + "::write_back")
    try:
        res, bad = _cache_eval(F, "write_back", 7, [])
        ok = len(res) == 2 and all(len(r["log"]) == 1 and r["log"][0][:2] == ("write", 7) and r["log"][0][2] == r["block_loc"] and r["tag"] == 7 for r in res)
        ok = ok and sorted((r["log"][0][3], r["kind"]) for r in res) == [("err", "err"), ("ok", "ok")] and all(r["payload"] == ("deverr", 1) for r in res if r["kind"] == "err")
        R.require(ok, fn, "path", "write_back must write self.block to the tagged block once and return the device's result; outcomes %s" % [(r["log"], r["kind"], r["tag"]) for r in res], fn.loc(0))
    except Undecided as e:
        R.bad(fn, "path", "cannot evaluate write_back: %s" % e, fn.loc(0))
    fn = F.fn(CACHE + "::write_back_with_duplicate")
    try:
        res, bad = _cache_eval(F, "write_back_with_duplicate", 7, [3])
        want = {(("write", 7, "ok"), ("write", 3, "ok")): "ok", (("write", 7, "ok"), ("write", 3, "err")): "err", (("write", 7, "err"),): "err"}
        got = {tuple((e[0], e[1], e[3]) for e in r["log"]): r["kind"] for r in res}
        ok = got == want and len(res) == 3 and all(all(e[2] == r["block_loc"] for e in r["log"]) and r["tag"] == 7 for r in res)
        ok = ok and all(r["payload"] == ("deverr", len(r["log"])) for r in res if r["kind"] == "err")
        R.require(ok, fn, "path", "write_back_with_duplicate must write the tagged block, then (only after Ok) the duplicate, and return the first error; outcomes %s" % sorted(got.items()), fn.loc(0))
        for k in ("err1", "err2", "ok"):
            R.ok(fn, "path:" + k, "outcome present")
    except Undecided as e:
        R.bad(fn, "path", "cannot evaluate write_back_with_duplicate: %s" % e, fn.loc(0))


@rule("BC5", ["C01", "C04", "C09"], floor=3,
      doc="who-may-call: <D as BlockDevice>::read/write are called only inside impl BlockCache; BlockCache::block_device only from VolumeManager::device; the cache's fields are touched only by impl BlockCache")
def bc5(F, R):
    for f in F.fns:
        for b, t in f.calls():
            c = callee_of(t)
            if c and (path_matches(c, "blockdevice::BlockDevice::read") or path_matches(c, "blockdevice::BlockDevice::write")):
                inside = f.npath.startswith(CACHE + "::")
                R.require(inside, f, "devcall:" + c.split("::")[-1], "device %s called from %s" % (c.split("::")[-1], f.npath), f.loc(b))
            if c and path_matches(c, CACHE + "::block_device"):
                R.require(f.npath.endswith("VolumeManager::device"), f, "block_device-caller", "BlockCache::block_device called from %s" % f.npath, f.loc(b))
    # field scan
    n = 0
    for f in F.fns:
        if f.npath.startswith(CACHE + "::") or f.npath.startswith("<blockdevice::BlockCache"):
            continue
        for b, i, s in f.stmts():
            places = []
            if s["k"] == "Assign":
                places.append(s["p"])
                places.extend(rvalue_places(s["rv"]))
            for p in places:
                n += 1
                names = [e[2] for e in p["proj"] if e[0] == "field"]
                if "block_idx" in names:
                    R.bad(f, "field:block_idx", "cache tag accessed outside impl BlockCache", f.loc(b, i))
    R.ok(None, "field-scan", "%d places scanned outside impl BlockCache" % n)
