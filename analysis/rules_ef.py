"""EF1-EF3, MD6: fate of device failures in the FS layer."""
from .framework import rule
from .ef import EF
from .mir import callee_of, path_matches, tstr
from .fsmodel import VM, FATVOL, call_matches
from .ev import guarded, g_try_ok, all_guards, try_inner

FS_SCOPE = ("volume_mgr::", "fat::", "filesystem::", "blockdevice::", "<filesystem::", "<Volume", "<blockdevice::", "Volume", "RawVolume")
SOURCES = ("blockdevice::BlockDevice::read", "blockdevice::BlockDevice::write", "blockdevice::BlockDevice::num_blocks")

EXEMPT = {
    # (function suffix, fate): reason
    ("as core::ops::Drop>::drop", "absorbed-success"): "Drop cannot return an error; documented: close explicitly to see the result",
}


def run_ef(F):
    c = getattr(F, "_ef_cache", None)
    if c is None:
        ef = EF(F, FS_SCOPE)
        sites = ef.run(SOURCES)
        c = (ef, sites)
        F._ef_cache = c
    return c


@rule("EF1", ["C11", "C06"], floor=60,
      doc="error fate: at every call in the FS layer at which a block-device failure can surface (device calls, and local functions that may return it, possibly converted to another variant) the Err is propagated or converted into another Err that is returned; it is never absorbed into success, into continued I/O, or a panic")
def ef1(F, R):
    ef, sites = run_ef(F)
    for (fn, b, t, c, fv, fates) in sorted(sites, key=lambda s: (s[0].npath, s[1])):
        short = c.split("::")[-1]
        for (fk, detail) in sorted(fates):
            key = "%s|as:%s|%s" % (short, fv or "device", fk)
            if fk in ("propagated",) or fk.startswith("converted:"):
                R.ok(fn, key, "failure of %s (%s) is %s %s" % (short, fv or "device error", fk, detail), fn.loc(b))
                continue
            ex = None
            for (suf, fate), why in EXEMPT.items():
                if fn.npath.endswith(suf) and fate == fk:
                    ex = why
            if ex:
                R.ok(fn, key + "|exempt", "exempt: %s" % ex, fn.loc(b))
                continue
            msg = {
                "absorbed-success": "a failure of %s (%s) is swallowed: the function goes on and returns success (%s)",
                "absorbed-continues": "a failure of %s (%s) is dropped and the function continues with further device I/O (%s)",
                "panics": "a failure of %s (%s) reaches unwrap/expect (%s)",
                "unknown-idiom": "the failure of %s (%s) flows into an unrecognised construct (%s); fail closed",
            }[fk] % (short, ("surfacing as Error::%s" % fv) if fv else "device error", detail)
            R.bad(fn, key, msg, fn.loc(b))
    R.note("summaries: " + "; ".join("%s->%s" % (k.split("::")[-1], sorted(v)) for k, v in sorted(ef.summ.items()) if v))


@rule("EF3", ["C11"], floor=4,
      doc="no cache write_back is reachable after a failed cache load: every read_mut failure leaves the function (the `expect(\"write_back with no read\")` in BlockCache is unreachable after a failed load)")
def ef3(F, R):
    n = 0
    for fn in F.fns:
        wbs = [b for b, t in fn.calls() if call_matches(t, ("BlockCache::write_back", "BlockCache::write_back_with_duplicate"))]
        if not wbs:
            continue
        for (gb, gi, g) in all_guards(fn):
            if g.kind == "variant" and g.variant in ("Break", "Err"):
                x = try_inner(g.term) if g.variant == "Break" else g.term
                while x is not None and x[0] == "call" and x[1] and x[1].endswith("::map_err"):
                    x = x[2][0]
                if x is not None and x[0] == "call" and x[1] and (path_matches(x[1], "BlockCache::read_mut")):
                    n += 1
                    tgt = fn.succ(gb)[gi][0]
                    reach = fn.reach([tgt])
                    hit = [w for w in wbs if w in reach]
                    R.require(not hit, fn, "load-failed-no-writeback", "write_back reachable after a failed read_mut (would hit expect(\"write_back with no read\") or write a scribbled buffer)", fn.loc(gb))
    # every function that loads mutably and writes back tests the load (the count of sites is not fixed: two arms may share one load)
    for fn in F.fns:
        if fn.npath.startswith(("fat::volume::", "volume_mgr::")) and "test" not in fn.npath:
            rms = [b for b, t in fn.calls() if call_matches(t, ("BlockCache::read_mut",))]
            wbs = [b for b, t in fn.calls() if call_matches(t, ("BlockCache::write_back", "BlockCache::write_back_with_duplicate"))]
            if rms and wbs:
                from .ev import failure_edges
                R.require(all(failure_edges(fn, b) for b in rms), fn, "load-tested:" + fn.npath.split("::")[-1], "%s does not test the result of its read_mut before writing back" % fn.npath.split("::")[-1], fn.loc(rms[0]))
    if n == 0:
        R.bad(None, "anchor", "no read_mut failure edges found", kind="anchor-missing")


@rule("FT6", ["C05"], floor=2,
      doc="post-commit errors in alloc_cluster: once the new cluster has been marked END_OF_FILE (the allocation is committed), running out of free clusters while recomputing the next-free hint (NotEnoughSpace from find_next_free_cluster) must not make the call fail - the last free cluster of a volume must be usable")
def ft6(F, R):
    from .rules_fs import _update_fat_calls
    fn = F.fn(FATVOL + "::alloc_cluster")
    eof = [c for c in _update_fat_calls(fn) if c[4] == "EOF"]
    if not eof:
        R.bad(fn, "anchor", "no END_OF_FILE mark in alloc_cluster", kind="anchor-missing")
        return
    after = fn.reach_after(eof[0][0])
    ef = EF(F, FS_SCOPE)
    ef.summ = {}
    n = 0
    for b, t in fn.calls():
        if b in after and call_matches(t, ("FatVolume::find_next_free_cluster",)):
            n += 1
            fates = ef.explore(fn, b, t, "NotEnoughSpace", True)
            bad = sorted(fk for (fk, d) in fates if fk == "propagated")
            R.require(not bad, fn, "hint-recompute", "after the allocation is committed, NotEnoughSpace from the hint recomputation is returned to the caller (%s): taking the last free cluster fails and leaks it" % bad, fn.loc(b),
                      okdetail="NotEnoughSpace after commit is absorbed into hint = None (fates %s)" % sorted(fk for fk, d in fates))
    if n < 2:
        R.bad(fn, "sites", "expected the two hint-recomputation searches after the commit, found %d" % n, kind="anchor-missing")
