"""Check driver plumbing: rule registry, reporter, known findings, evidence, exit codes."""
import json
import os
import sys
import time
import traceback

from . import facts as factsmod
from .mir import Facts

VERIF = os.path.dirname(os.path.dirname(os.path.abspath(__file__)))
EVIDENCE_DIR = os.environ.get("VERIF_EVIDENCE_DIR") or os.path.join(VERIF, "evidence")
REPLAY_DIR = os.path.join(EVIDENCE_DIR, "replay")
KNOWN = os.path.join(VERIF, "known_findings.json")

RULES = {}  # rule id -> (function, doc, properties)
RULES["TW"] = {"fn": lambda F, R: None, "props": [], "floor": None,
               "doc": "compile-fail witnesses (thorough tier): using a File/Directory/Volume after close() (E0382), freeing the manager while a wrapper borrows it (E0505), passing a RawFile as a RawDirectory (E0308), touching VolumeManager.data / BlockCache.block_idx / LfnBuffer.free (E0616), forging handles (E0603/E0423), aliasing the LFN storage (E0499) do not compile; each with a compiling twin"}


def rule(rid, props, floor=None, doc=""):
    def deco(fn):
        RULES[rid] = {"fn": fn, "props": props, "floor": floor, "doc": doc or (fn.__doc__ or "").strip()}
        return fn

    return deco


class Undecided(Exception):
    pass


class Reporter:
    """Collects rule instances for one rule run."""

    def __init__(self, rid):
        self.rid = rid
        self.instances = []  # dicts
        self.notes = []

    def ok(self, fn, key, detail="", loc=None):
        self.instances.append({"rule": self.rid, "status": "pass", "function": _fname(fn), "key": key, "detail": detail, "loc": loc})

    def bad(self, fn, key, detail, loc=None, trace=None, kind="violation"):
        self.instances.append(
            {"rule": self.rid, "status": "violation", "kind": kind, "function": _fname(fn), "key": key, "detail": detail, "loc": loc, "trace": trace}
        )

    def note(self, text):
        self.notes.append(text)

    def require(self, cond, fn, key, detail, loc=None, trace=None, okdetail=None):
        if cond:
            self.ok(fn, key, okdetail if okdetail is not None else "verified; would report: " + detail, loc)
        else:
            self.bad(fn, key, detail, loc, trace)
        return cond

    def count(self):
        return len(self.instances)


def _fname(fn):
    if fn is None:
        return None
    if isinstance(fn, str):
        return fn
    return fn.npath


def load_known():
    if not os.path.exists(KNOWN):
        return []
    return json.load(open(KNOWN))["findings"]


def run_rules(F, rule_ids, cfg="log"):
    from . import fsmodel as _fsmodel
    _fsmodel.CURRENT_FACTS = F
    """Run rules on a Facts object. Returns list of instance dicts (+ per-rule notes)."""
    from . import poly as _poly
    from .mir import expand_local_calls as _exp
    _poly.EXPAND = lambda t, F=F: _exp(F, t)
    all_inst = []
    notes = {}
    for rid in rule_ids:
        spec = RULES[rid]
        R = Reporter(rid)
        try:
            spec["fn"](F, R)
        except KeyError as e:
            R.bad(None, "anchor", "anchor missing: %s" % (e.args[0] if e.args else e), kind="anchor-missing")
        except Undecided as e:
            R.instances.append({"rule": rid, "status": "undecided", "function": None, "key": "undecided", "detail": str(e), "loc": None})
        floor = spec["floor"]
        if floor is not None and R.count() < floor:
            R.bad(None, "floor", "rule matched %d instances, floor is %d (fail closed)" % (R.count(), floor), kind="anchor-missing")
        for i in R.instances:
            i["cfg"] = cfg
        all_inst.extend(R.instances)
        notes[rid] = R.notes
    return all_inst, notes


def classify(instances, prop):
    """Split violations into known findings and new violations."""
    known = [k for k in load_known() if k.get("status", "open") == "open"]
    new, old = [], []
    for i in instances:
        if i["status"] != "violation":
            continue
        hit = None
        for k in known:
            if k["rule"] == i["rule"] and k["function"] == i["function"] and k["construct"] == i["key"]:
                hit = k
                break
        if hit:
            old.append((i, hit))
        else:
            new.append(i)
    return new, old


def load_selftests(prop):
    """Mutants that this property's check must detect: selftest/index.json entries listing the property, and every
    seeded change (seeded/<id>/meta.json) whose detection matrix (seeded/matrix.json) lists the property."""
    out = []
    ip = os.path.join(VERIF, "selftest", "index.json")
    if os.path.exists(ip):
        for m in json.load(open(ip))["mutants"]:
            if prop in m["properties"]:
                out.append({"id": m["id"], "patch": os.path.join(VERIF, m["patch"]), "rules": m.get("rules")})
    mp = os.path.join(VERIF, "seeded", "matrix.json")
    if os.path.exists(mp):
        mx = json.load(open(mp))
        for sid, det in sorted(mx.items()):
            if prop in det:
                out.append({"id": "seeded-" + sid, "patch": os.path.join(VERIF, "seeded", sid, "patch.diff"), "rules": det[prop]})
    return out


def _selfval_one(prop, rule_ids, kind, mid, patch, wid):
    """Apply one recorded variant to a scratch copy of the sources (outside /repo and /verif), extract facts into this
    worker's own target directory and run the property's rules.  Returns a result dict."""
    import shutil
    import subprocess
    import tempfile
    repo = os.environ.get("VERIF_REPO", "/repo")
    tmp = tempfile.mkdtemp(prefix="verif-selftest.")
    key = "mutant" if kind == "mutant" else "benign"
    try:
        r = os.path.join(tmp, "repo")
        os.makedirs(r)
        for x in ("src", "Cargo.toml", "Cargo.lock"):
            sx = os.path.join(repo, x)
            if os.path.isdir(sx):
                shutil.copytree(sx, os.path.join(r, x))
            elif os.path.exists(sx):
                shutil.copy(sx, os.path.join(r, x))
        pr = subprocess.run(["patch", "-p1", "-s", "-i", patch], cwd=r, capture_output=True, text=True)
        if pr.returncode != 0:
            return {key: mid, "outcome": "patch-does-not-apply (source changed since the variant was recorded); skipped"}
        try:
            raw, info = factsmod.extract(r, "log", target_dir=os.path.join(factsmod.CACHE, "target-log-w%d" % wid))
        except factsmod.ExtractError:
            return {key: mid, "outcome": "does-not-compile; skipped"}
        inst, _ = run_rules(Facts(raw), rule_ids, "log")
        new, _old = classify(inst, prop)
        if kind == "mutant":
            fired = sorted({i["rule"] for i in new})
            return {key: mid, "outcome": "detected", "rules": fired} if fired else {key: mid, "outcome": "MISSED"}
        und = [i for i in inst if i["status"] == "undecided"]
        if new or und:
            return {key: mid, "outcome": "FALSE-ALARM", "rules": sorted({i["rule"] for i in new + und})}
        return {key: mid, "outcome": "silent"}
    finally:
        shutil.rmtree(tmp, ignore_errors=True)


def self_validate(prop, rule_ids):
    """Thorough tier: every recorded mutant of this property (seeded changes + reverted fixes) must make the property's
    rules fire, and every benign variant (behaviour-preserving rewrite) must leave them silent.  Variants are processed by
    a small pool of worker processes, each with its own cargo target directory.  Returns (results, failures)."""
    import concurrent.futures
    import multiprocessing
    import queue
    tasks = [("mutant", m["id"], m["patch"]) for m in load_selftests(prop)]
    ip = os.path.join(VERIF, "selftest", "index.json")
    benign = json.load(open(ip)).get("benign", []) if os.path.exists(ip) else []
    tasks += [("benign", m["id"], os.path.join(VERIF, m["patch"])) for m in benign]
    nw = max(1, min(int(os.environ.get("VERIF_WORKERS", "6")), len(tasks)))
    ids = queue.Queue()
    for k in range(nw):
        ids.put(k)
    ctx = multiprocessing.get_context("fork")

    def run(task):
        wid = ids.get()
        try:
            with concurrent.futures.ProcessPoolExecutor(max_workers=1, mp_context=ctx) as ex:
                return ex.submit(_selfval_one, prop, rule_ids, task[0], task[1], task[2], wid).result()
        finally:
            ids.put(wid)

    results, failures = [], []
    with concurrent.futures.ThreadPoolExecutor(max_workers=nw) as tp:
        for res in tp.map(run, tasks):
            results.append(res)
            if res.get("outcome") == "MISSED":
                failures.append(res["mutant"])
            if res.get("outcome") == "FALSE-ALARM":
                failures.append("benign:" + res["benign"])
    return results, failures


def check_property(prop, rule_ids, tier, level="other", explanation="", assumptions=(), extra_cov=None, proof=None, post=None):
    """Generic check entry point. Returns exit code."""
    t0 = time.time()
    os.environ["VERIF_TIER"] = tier
    seed = int(os.environ.get("VERIF_SEED", "0") or 0)
    repo = os.environ.get("VERIF_REPO", "/repo")
    cfgs = ["log"] if tier == "quick" else ["log", "nofeat", "defmt"]
    os.makedirs(REPLAY_DIR, exist_ok=True)
    instances = []
    infos = []
    notes_all = {}
    try:
        for cfg in cfgs:
            raw, info = factsmod.extract(repo, cfg)
            infos.append(info)
            F = Facts(raw)
            inst, notes = run_rules(F, rule_ids, cfg)
            instances.extend(inst)
            if cfg == "log":
                notes_all = notes
            if post and cfg == "log":
                extra = post(F, tier)
                if extra:
                    instances.extend(extra)
            if cfg == "log" and tier == "thorough" and prop in ("C08", "C17") and not os.environ.get("VERIF_NO_WITNESS"):
                from . import witness
                instances.extend(witness.run(repo, prop))
                if "TW" not in rule_ids:
                    rule_ids = list(rule_ids) + ["TW"]
    except factsmod.ExtractError as e:
        print("ERROR: %s" % e)
        return 2
    except Exception:
        traceback.print_exc()
        return 2

    selfval = None
    selffail = []
    if tier == "thorough" and not os.environ.get("VERIF_NO_SELFTEST"):
        try:
            selfval, selffail = self_validate(prop, rule_ids)
        except Exception:
            traceback.print_exc()
            return 2
    undecided = [i for i in instances if i["status"] == "undecided"]
    new, old = classify(instances, prop)
    # de-duplicate across configs by (rule, function, key)
    seen = set()
    new_u = []
    for i in new:
        k = (i["rule"], i["function"], i["key"])
        if k not in seen:
            seen.add(k)
            new_u.append(i)
    seen = set()
    old_u = []
    for i, kf in old:
        k = (i["rule"], i["function"], i["key"])
        if k not in seen:
            seen.add(k)
            old_u.append((i, kf))

    for i, kf in old_u:
        print("KNOWN-FINDING: property=%s rule=%s fn=%s %s" % (prop, i["rule"], i["function"], kf.get("what_fails", i["detail"])))
    n = 0
    for i in new_u:
        n += 1
        rp = os.path.join(REPLAY_DIR, "%s-%d.json" % (prop, n))
        json.dump(
            {
                "property": prop,
                "rule": i["rule"],
                "rule_doc": RULES[i["rule"]]["doc"],
                "function": i["function"],
                "construct_key": i["key"],
                "kind": i.get("kind"),
                "detail": i["detail"],
                "loc": i["loc"],
                "trace": i.get("trace"),
                "cfg": i["cfg"],
                "rerun": "cd /verif && ./check %s --rule %s" % (prop, i["rule"]),
            },
            open(rp, "w"),
            indent=1,
        )
        print("VIOLATION property=%s replay=%s" % (prop, rp))
        print("  rule=%s fn=%s at %s: %s" % (i["rule"], i["function"], i["loc"], i["detail"]))
    for i in undecided:
        print("UNDECIDED rule=%s: %s" % (i["rule"], i["detail"]))

    passes = [i for i in instances if i["status"] == "pass"]
    per_rule = {}
    for i in instances:
        d = per_rule.setdefault(i["rule"], {"pass": 0, "violation": 0, "undecided": 0})
        d[i["status"]] += 1
    samples = []
    seen_rules = set()
    for i in instances:
        if i["cfg"] != "log":
            continue
        if i["rule"] in seen_rules and len(samples) > 40:
            continue
        seen_rules.add(i["rule"])
        samples.append({k: i[k] for k in ("rule", "status", "function", "key", "detail", "loc")})
    samples = samples[:80]
    functions = sorted({i["function"] for i in instances if i["function"]})
    cov = {
        "explanation": explanation,
        "rules": {rid: {"doc": RULES[rid]["doc"], "floor": RULES[rid]["floor"], "counts": per_rule.get(rid, {})} for rid in rule_ids},
        "rule_instances": len(instances),
        "instances_passed": len(passes),
        "functions_analysed": functions,
        "configurations": [i["cfg"] for i in infos],
        "fact_files": infos,
        "samples": samples,
        "known_findings_reported": [
            {"rule": i["rule"], "function": i["function"], "construct": i["key"]} for i, _ in old_u
        ],
        "notes": notes_all,
        "exhaustive": True,
    }
    if selfval is not None:
        cov["self_validation"] = {"mutants": sum(1 for x in selfval if "mutant" in x), "detected": sum(1 for x in selfval if x["outcome"] == "detected"),
                                  "benign_variants": sum(1 for x in selfval if "benign" in x), "silent": sum(1 for x in selfval if x["outcome"] == "silent"), "results": selfval}
        cov["disagreements_checked"] = sum(1 for x in selfval if x["outcome"] == "detected")
    if proof:
        cov.update(proof(instances))
    if extra_cov:
        cov.update(extra_cov)
    ev = {
        "property_id": prop,
        "tier": tier,
        "seed": seed,
        "level": level,
        "coverage": cov,
        "assumptions": list(assumptions),
        "wall_s": round(time.time() - t0, 2),
        "violations": len(new_u),
    }
    os.makedirs(EVIDENCE_DIR, exist_ok=True)
    json.dump(ev, open(os.path.join(EVIDENCE_DIR, "%s.json" % prop), "w"), indent=1)
    if new_u:
        return 1
    if undecided:
        return 2
    if selffail:
        print("SELFTEST-FAILED property=%s: recorded mutant(s) not detected or benign variant(s) flagged: %s" % (prop, selffail))
        return 2
    print("OK property=%s rules=%d instances=%d known=%d (%.1fs)" % (prop, len(rule_ids), len(instances), len(old_u), time.time() - t0))
    return 0
