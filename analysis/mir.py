"""CFG algebra and term reconstruction over mirfacts JSON.

All engines work on the MIR control-flow graph *without* unwind/cleanup edges.
"""
import re
from collections import defaultdict, deque

# ---------------------------------------------------------------------------------------
# path normalisation


def strip_generics(path):
    """Remove `::<...>` groups (turbofish / impl generics) from a def path."""
    out = []
    i = 0
    n = len(path)
    while i < n:
        if path.startswith("::<", i):
            depth = 0
            j = i + 2
            while j < n:
                if path[j] == "<":
                    depth += 1
                elif path[j] == ">" and path[j - 1] != "-":
                    depth -= 1
                    if depth == 0:
                        break
                j += 1
            i = j + 1
            continue
        out.append(path[i])
        i += 1
    return "".join(out)


LOG_CRATES = ("log", "defmt")


class Fn:
    def __init__(self, raw, facts):
        self.raw = raw
        self.facts = facts
        self.path = raw["path"]
        self.npath = strip_generics(raw["path"])
        self.kind = raw["kind"]
        self.blocks = raw["blocks"]
        self.locals = raw["locals"]
        self.arg_count = raw["arg_count"]
        self.file = raw["span"]["file"]
        self.line = raw["span"]["l0"]
        self.promoted = raw.get("promoted", [])
        self._succ = None
        self._pred = None
        self._defs = None
        self._dom = None
        self._term_cache = {}

    def __repr__(self):
        return "<Fn %s>" % self.npath

    # ---- CFG ------------------------------------------------------------------------
    def term(self, b):
        return self.blocks[b]["term"]

    def succ(self, b):
        """List of (target, label). label: ('goto',), ('sw', value) / ('sw','otherwise'),
        ('ret',) for calls/asserts/drops normal continuation."""
        if self._succ is None:
            self._succ = [self._succ_of(i) for i in range(len(self.blocks))]
        return self._succ[b]

    def _succ_of(self, b):
        t = self.blocks[b]["term"]
        k = t["k"]
        if k == "Goto":
            return [(t["target"], ("goto",))]
        if k == "SwitchInt":
            out = [(tb, ("sw", v)) for v, tb in t["targets"]]
            out.append((t["otherwise"], ("sw", "otherwise")))
            return out
        if k in ("Call", "Assert", "Drop"):
            if t["target"] is None:
                return []
            return [(t["target"], ("ret",))]
        return []

    def land(self, b):
        """where an edge into b comes to rest: blocks that only mark storage and jump on are stepped over"""
        seen = set()
        while b not in seen:
            seen.add(b)
            blk = self.blocks[b]
            if blk["term"]["k"] == "Goto" and all(s["k"] in ("StorageLive", "StorageDead", "Nop") for s in blk["stmts"]) and not blk.get("cleanup"):
                b = blk["term"]["target"]
            else:
                break
        return b

    def preds(self, b):
        if self._pred is None:
            self._pred = defaultdict(list)
            for i in range(len(self.blocks)):
                if self.blocks[i]["cleanup"]:
                    continue
                for (s, lab) in self.succ(i):
                    self._pred[s].append((i, lab))
        return self._pred[b]

    def live_blocks(self):
        return self.reach([0])

    def reach(self, starts, cut_edges=(), cut_blocks=()):
        """Blocks reachable from `starts` (inclusive) not crossing cut edges (b, idx-in-succ-list)
        nor entering cut blocks."""
        cut_edges = set(cut_edges)
        cut_blocks = set(cut_blocks)
        seen = set()
        dq = deque()
        for s in starts:
            if s not in cut_blocks and s not in seen:
                seen.add(s)
                dq.append(s)
        while dq:
            b = dq.popleft()
            for i, (s, _lab) in enumerate(self.succ(b)):
                if (b, i) in cut_edges or s in cut_blocks or s in seen:
                    continue
                seen.add(s)
                dq.append(s)
        return seen

    def reach_after(self, b, cut_edges=(), cut_blocks=()):
        """Blocks reachable from the *successors* of b (b itself only if on a cycle)."""
        starts = [s for i, (s, _l) in enumerate(self.succ(b)) if (b, i) not in set(cut_edges)]
        return self.reach(starts, cut_edges, cut_blocks)

    def return_blocks(self):
        return [i for i in self.live_blocks() if self.term(i)["k"] == "Return"]

    def dominators(self):
        if self._dom is not None:
            return self._dom
        live = sorted(self.live_blocks())
        dom = {b: set(live) for b in live}
        dom[0] = {0}
        changed = True
        while changed:
            changed = False
            for b in live:
                if b == 0:
                    continue
                ps = [p for p, _ in self.preds(b) if p in dom]
                if not ps:
                    continue
                new = set.intersection(*[dom[p] for p in ps]) | {b}
                if new != dom[b]:
                    dom[b] = new
                    changed = True
        self._dom = dom
        return dom

    def dominates(self, a, b):
        return a in self.dominators().get(b, set())

    def loops(self):
        """Natural loops: list of (header, set(body blocks), [back-edge sources])."""
        dom = self.dominators()
        loops = {}
        for b in self.live_blocks():
            for (s, _l) in self.succ(b):
                if s in dom.get(b, set()):  # back edge b -> s
                    body = {s, b}
                    st = [b]
                    while st:
                        x = st.pop()
                        if x == s:
                            continue
                        for p, _ in self.preds(x):
                            if p not in body and p in dom:
                                body.add(p)
                                st.append(p)
                    h = loops.setdefault(s, (set(), []))
                    h[0].update(body)
                    h[1].append(b)
        return [(h, v[0], v[1]) for h, v in sorted(loops.items())]

    # ---- guards (edge dominance) ---------------------------------------------------------
    def switch_edges(self):
        out = []
        for b in self.live_blocks():
            t = self.term(b)
            if t["k"] == "SwitchInt":
                for i, (s, lab) in enumerate(self.succ(b)):
                    out.append((b, i, s, lab[1]))
        return out

    def edge_guards(self, target):
        """All switch edges (b, i) that every entry->target path must cross.
        Returned as list of dicts {block, idx, value, others, cond (term)}; `value` is the switch
        value or 'otherwise' (then `others` lists the excluded values)."""
        out = []
        for b in self.live_blocks():
            t = self.term(b)
            if t["k"] != "SwitchInt":
                continue
            succs = self.succ(b)
            for i, (s, lab) in enumerate(succs):
                # several switch values may lead to the same block; treat edges individually
                if target not in self.reach([0], cut_edges=[(b, i)]) or (target == b and False):
                    out.append(
                        {
                            "block": b,
                            "idx": i,
                            "value": lab[1],
                            "others": [v for v, _ in t["targets"]],
                            "cond": self.term_of_operand(t["discr"], b),
                            "line": t["sp"]["l0"],
                        }
                    )
        return out

    def unreachable_without(self, target, edges, frm=0):
        """True iff cutting all `edges` makes `target` unreachable from `frm`."""
        return target not in self.reach([frm], cut_edges=edges)

    # ---- definitions / terms ------------------------------------------------------------
    def defs(self):
        """local -> list of def sites: ('assign', b, i, rvalue) / ('call', b, term) /
        ('partial', b, i) for projected stores / ('addrmut', b, i)."""
        if self._defs is not None:
            return self._defs
        d = defaultdict(list)
        for b, blk in enumerate(self.blocks):
            if blk["cleanup"] or blk.get("threaded"):
                continue            # (threaded blocks are private copies made by analysis/lower.py: control flow only)
            for i, s in enumerate(blk["stmts"]):
                if s["k"] == "Assign":
                    p = s["p"]
                    if not p["proj"]:
                        d[p["l"]].append(("assign", b, i, s["rv"]))
                    else:
                        # a store through a deref of a ref-typed local does not change the local
                        if p["proj"][0][0] != "deref":
                            d[p["l"]].append(("partial", b, i))
                    rv = s["rv"]
                    if rv["k"] in ("Ref", "RawPtr") and rv.get("mut", True) and not any(
                        e[0] == "deref" for e in rv["p"]["proj"]
                    ):
                        d[rv["p"]["l"]].append(("addrmut", b, i))
                elif s["k"] == "SetDiscriminant":
                    d[s["p"]["l"]].append(("partial", b, i))
            t = blk["term"]
            if t["k"] == "Call":
                p = t["dest"]
                if not p["proj"]:
                    d[p["l"]].append(("call", b, t))
                elif p["proj"][0][0] != "deref":
                    d[p["l"]].append(("partial", b, -1))
        self._defs = d
        return d

    def single_def(self, l):
        ds = self.defs().get(l, [])
        if len(ds) == 1 and ds[0][0] in ("assign", "call"):
            return ds[0]
        return None

    def local_name(self, l):
        return self.locals[l]["name"]

    def is_arg(self, l):
        return 1 <= l <= self.arg_count

    def canon_place(self, p, depth=0):
        """Rewrite a place so that its base is an argument, a named/multi-def local or a call
        result: (*_16) with _16 = &mut (*_1).block  ==>  (*_1).block"""
        l = p["l"]
        proj = list(p["proj"])
        while depth < 40:
            depth += 1
            if not proj or proj[0][0] != "deref":
                break
            sd = self.single_def(l)
            if sd is None or sd[0] != "assign":
                break
            rv = sd[3]
            if rv["k"] in ("Ref", "RawPtr"):
                inner = rv["p"]
                l = inner["l"]
                proj = list(inner["proj"]) + proj[1:]
                continue
            if rv["k"] == "Use" and rv["op"]["k"] in ("copy", "move"):
                inner = rv["op"]["p"]
                l = inner["l"]
                proj = list(inner["proj"]) + proj
                continue
            if rv["k"] == "CopyForDeref":
                inner = rv["p"]
                l = inner["l"]
                proj = list(inner["proj"]) + proj
                continue
            if rv["k"] == "Cast" and rv["op"]["k"] in ("copy", "move") and "PointerCoercion" in rv["kind"]:
                inner = rv["op"]["p"]
                l = inner["l"]
                proj = list(inner["proj"]) + proj
                continue
            break
        return {"l": l, "proj": proj}

    def place_str(self, p):
        p = self.canon_place(p)
        l = p["l"]
        nm = self.local_name(l)
        s = nm if nm else "_%d" % l
        for e in p["proj"]:
            k = e[0]
            if k == "deref":
                s = "(*%s)" % s
            elif k == "field":
                s = "%s.%s" % (s, e[2])
            elif k == "downcast":
                s = "(%s as %s)" % (s, e[2])
            elif k == "index":
                s = "%s[%s]" % (s, self.local_name(e[1]) or "_%d" % e[1])
            elif k == "cidx":
                s = "%s[%s]" % (s, e[1])
            elif k == "subslice":
                s = "%s[%s..%s]" % (s, e[1], e[2])
        return s

    def term_of_operand(self, op, at_block=None, depth=0):
        """Reconstruct an expression term for an operand.
        Terms are tuples:
          ('c', value, def|None)        scalar constant
          ('cdef', def)                 named constant without scalar value
          ('fn', path)                  function item / constructor
          ('arg', idx, name)            unmodified argument
          ('var', local, name)          multi-def / opaque local
          ('place', base_term, proj)    projected place read (proj = tuple of names)
          ('call', callee, args, (block))  call result
          ('bin', op, l, r) ('un', op, x) ('cast', ty, x) ('ref', x) ('agg', name, variant, ops)
          ('discr', x) ('repeat', x, n) ('zst',) ('other', repr)
        """
        k = op["k"]
        if k == "const":
            if "fn" in op:
                return ("fn", strip_generics(op["fn"]), op.get("ctor_of"))
            if "val" in op:
                return ("c", op["val"], op.get("def"))
            if "promoted" in op:
                return self._promoted_term(op["promoted"])
            if "def" in op:
                return ("cdef", op["def"])
            if op.get("zst"):
                return ("zst", op.get("ty"))
            return ("other", op.get("repr", op.get("ty")))
        if k in ("copy", "move"):
            return self.term_of_place(op["p"], depth)
        return ("other", str(op))

    def _promoted_term(self, idx):
        try:
            pb = self.promoted[idx]
        except Exception:
            return ("other", "promoted[%d]" % idx)
        pf = Fn(dict(pb, path=self.path + "::promoted[%d]" % idx, promoted=[]), self.facts)
        # value of _0 at return
        sd = pf.single_def(0)
        if sd and sd[0] == "assign":
            return pf.term_of_rvalue(sd[3], 0)
        return ("other", "promoted[%d]" % idx)

    def term_of_place(self, p, depth=0):
        if depth > 60:
            return ("other", "deep")
        p = self.canon_place(p)
        l = p["l"]
        proj = p["proj"]
        base = self._local_term(l, depth)
        if not proj:
            return base
        # a captured reference read out of a closure value: the closure is built once; `&mut closure` (an FnMut being called)
        # does not change which places its by-reference captures denote
        if base[0] == "var" and proj[0][0] == "field" and "{closure@" in self.locals[l]["ty"] and not self.locals[l]["ty"].startswith("&") and depth < 40:
            cds = [d for d in self.defs().get(l, []) if d[0] == "assign"]
            others = [d for d in self.defs().get(l, []) if d[0] not in ("assign", "addrmut")]
            if len(cds) == 1 and not others and cds[0][3]["k"] == "Aggregate" and cds[0][3].get("agg") == "Closure" and proj[0][1] < len(cds[0][3]["ops"]):
                op = cds[0][3]["ops"][proj[0][1]]
                if op.get("k") in ("move", "copy") and self.locals[op["p"]["l"]]["ty"].startswith("&"):
                    base = self.term_of_operand(op, cds[0][1], depth + 1)
                    proj = proj[1:]
                    while proj and base[0] == "ref" and proj[0][0] == "deref":
                        base = base[1]
                        proj = proj[1:]
                    if not proj:
                        return base
        # the payload of a variant read out of a local with several definitions: only the definitions that build that very
        # variant can supply it (`let r = if .. { Ok(v) } else { Err(e) }; .. (r as Ok).0` is v) - one such definition: its operand
        if len(proj) >= 2 and proj[0][0] == "downcast" and proj[1][0] == "field" and proj[1][1] == 0 and depth < 40:
            src_l = None
            if base[0] == "var":
                src_l, want = base[1], proj[0][2]      # (the local the value was copied from, not necessarily the place's own)
            elif base[0] == "call" and base[1] and base[1].endswith("Try::branch") and proj[0][2] == "Continue" and base[2]:
                inner = strip_refs(base[2][0])
                if inner[0] == "var":
                    src_l = inner[1]
                    ty = self.locals[src_l]["ty"]
                    want = "Ok" if "Result" in ty.split("<")[0] else ("Some" if "Option" in ty.split("<")[0] else None)
            if src_l is not None and want is not None:
                cands, clean = [], True
                pays = {}
                for d in self.defs().get(src_l, []):
                    if d[0] == "assign" and d[3]["k"] == "Aggregate" and d[3].get("agg") == "Adt" and d[3].get("variant_name"):
                        if d[3]["variant_name"] == want and len(d[3]["ops"]) == 1:
                            cands.append(d)
                    elif d[0] == "assign" and d[3]["k"] == "Use" and d[3]["op"].get("k") in ("move", "copy") and not d[3]["op"]["p"]["proj"] and d[3]["op"]["p"]["l"] != src_l:
                        # `x = tmp` with tmp built as one variant
                        tt = self._local_term(d[3]["op"]["p"]["l"], depth + 1)
                        if tt[0] == "agg" and tt[1] == "Adt" and tt[2] and "::" in tt[2]:
                            if tt[2].split("::")[-1] == want and len(tt[3]) == 1:
                                cands.append(d)
                                pays[id(d)] = tt[3][0]
                        else:
                            clean = False
                    elif d[0] == "call" and (strip_generics(d[2].get("callee") or "")).endswith("FromResidual::from_residual"):
                        pass                                    # an early exit's value: never the success variant
                    elif d[0] == "call":
                        cands.append(d)                         # a fallible call's own result: its payload when it succeeded
                    else:
                        clean = False
                if clean and len(cands) == 1:
                    d = cands[0]
                    if d[0] == "call":
                        pay = ("place", self.call_term(d[2], d[1], depth + 1), ("as:" + want, "0"))
                    else:
                        pay = pays[id(d)] if id(d) in pays else self.term_of_operand(d[3]["ops"][0], d[1], depth + 1)
                    rest = proj[2:]
                    if not rest:
                        return pay
                    names2 = []
                    for e in rest:
                        names2.append("*" if e[0] == "deref" else e[2] if e[0] == "field" else "as:" + e[2] if e[0] == "downcast" else e[0])
                    if all(isinstance(x, str) for x in names2):
                        return _rebase(pay, names2)
        # (x, y).0 of a checked arithmetic op -> the arithmetic result
        if base[0] == "bin" and base[1].endswith("WithOverflow") and proj[0][0] == "field":
            if proj[0][1] == 0:
                base = fold_bin(("bin", base[1][: -len("WithOverflow")], base[2], base[3]))
                proj = proj[1:]
                if not proj:
                    return base
            else:
                return ("ovf", base)
        # field of a known aggregate
        while proj and (base[0] == "agg" and proj[0][0] == "field" and base[1] in ("Tuple", "Adt", "Closure") and proj[0][1] < len(base[3])
                        or base[0] == "ref" and proj[0][0] == "deref"
                        or base[0] == "agg" and base[1] == "Adt" and proj[0][0] == "downcast" and base[2] and base[2].split("::")[-1] == proj[0][2]):
            if proj[0][0] == "downcast":
                proj = proj[1:]                 # the variant the aggregate was built as
                continue
            base = base[1] if base[0] == "ref" else base[3][proj[0][1]]
            proj = proj[1:]
        if not proj:
            return base
        names = []
        for e in proj:
            if e[0] == "deref":
                names.append("*")
            elif e[0] == "field":
                names.append(e[2])
            elif e[0] == "downcast":
                names.append("as:" + e[2])
            elif e[0] == "index":
                names.append(("idx", self._local_term(e[1], depth + 1)))
            elif e[0] == "cidx":
                names.append(("cidx", e[1]))
            elif e[0] == "subslice":
                names.append(("sub", e[1], e[2]))
            else:
                names.append(e[0])
        if base[0] == "call" and base[1] and base[1].endswith(("Option::filter", "Option::inspect")) and len(names) >= 2 and names[0] == "as:Some" and names[1] == "0" and base[2]:
            # the payload of a filtered / inspected Option is the receiver's payload
            return _rebase(base[2][0], names)
        if base[0] == "call" and base[1] and base[1].endswith("Option::map") and len(names) >= 2 and names[0] == "as:Some" and names[1] == "0" and len(base[2]) == 2:
            # the payload of opt.map(f) is f(opt's payload), when f is a single expression
            body_ = inline_closure(self.facts, base[2][1], [_rebase(base[2][0], ("as:Some", "0"))])
            if body_ is not None:
                return _rebase(body_, names[2:]) if names[2:] else body_
        return ("place", base, tuple(names))

    def _local_term(self, l, depth):
        key = l
        if key in self._term_cache:
            return self._term_cache[key]
        self._term_cache[key] = ("var", l, self.local_name(l))  # recursion guard
        r = self._local_term_inner(l, depth)
        self._term_cache[key] = r
        return r

    def _local_term_inner(self, l, depth):
        ds = self.defs().get(l, [])
        if self.is_arg(l) and not ds:
            return ("arg", l, self.local_name(l))
        if self.kind == "Closure" and l == 1 and not ds:
            return ("arg", 1, "closure_env")
        low = self.raw.get("lowered_calls", {}).get(l)
        if low is not None and len(ds) == low["ndefs"]:
            # the result of a lowered adaptor call (analysis/lower.py): as a *term* it is still that call - the explicit
            # control flow is there for the path-based rules
            return self.call_term(low["term"], low["block"], depth + 1)
        sd = self.single_def(l)
        if sd is None:
            return ("var", l, self.local_name(l))
        if sd[0] == "assign":
            return self.term_of_rvalue(sd[3], sd[1], depth + 1)
        if sd[0] == "call":
            t = sd[2]
            return self.call_term(t, sd[1], depth + 1)
        return ("var", l, self.local_name(l))

    def call_term(self, t, b, depth=0):
        callee = strip_generics(t["callee"]) if t.get("callee") else None
        args = tuple(self.term_of_operand(a, b, depth + 1) for a in t["args"])
        return ("call", callee, args, b)

    def term_of_rvalue(self, rv, b, depth=0):
        k = rv["k"]
        if k == "Use":
            return self.term_of_operand(rv["op"], b, depth)
        if k == "BinaryOp":
            return fold_bin(("bin", rv["op"], self.term_of_operand(rv["l"], b, depth), self.term_of_operand(rv["r"], b, depth)))
        if k == "UnaryOp":
            return ("un", rv["op"], self.term_of_operand(rv["x"], b, depth))
        if k == "Cast":
            x = self.term_of_operand(rv["op"], b, depth)
            if "PointerCoercion" in rv["kind"]:
                return x
            if getattr(self, "fold_casts", False) and x[0] == "c" and isinstance(x[1], int) and rv["ty"] in _INT_BITS:
                return ("c", x[1] & ((1 << _INT_BITS[rv["ty"]]) - 1), None)
            return ("cast", rv["ty"], x, rv.get("src"))
        if k in ("Ref", "RawPtr"):
            return ("ref", self.term_of_place(rv["p"], depth))
        if k == "CopyForDeref":
            return self.term_of_place(rv["p"], depth)
        if k == "Discriminant":
            return ("discr", self.term_of_place(rv["p"], depth), tuple(rv.get("variants", ())))
        if k == "Aggregate":
            a = rv["agg"]
            ops = tuple(self.term_of_operand(o, b, depth) for o in rv["ops"])
            if a == "Adt":
                return ("agg", "Adt", rv["adt"] + "::" + rv["variant_name"], ops)
            if a == "Closure":
                return ("agg", "Closure", strip_generics(rv["closure"]), ops)
            return ("agg", a, None, ops)
        if k == "Repeat":
            return ("repeat", self.term_of_operand(rv["op"], b, depth), rv["n"])
        return ("other", rv.get("repr", k))

    # ---- iteration helpers ------------------------------------------------------------
    def calls(self, live_only=True):
        """Yield (block, term) for every Call terminator (non-cleanup)."""
        blocks = self.live_blocks() if live_only else range(len(self.blocks))
        for b in sorted(blocks):
            blk = self.blocks[b]
            if blk["cleanup"] or (blk.get("threaded") and blk.get("orig") in blocks):
                continue            # a private copy whose original is live too: the original speaks for both
            t = blk["term"]
            if t["k"] == "Call":
                yield b, t

    def calls_to(self, *names):
        """Calls whose normalised callee (or resolved callee) ends with one of `names`."""
        for b, t in self.calls():
            c = callee_of(t)
            r = strip_generics(t["resolved"]) if t.get("resolved") else None
            for n in names:
                if (c and path_matches(c, n)) or (r and path_matches(r, n)):
                    yield b, t
                    break

    def stmts(self, live_only=True):
        blocks = self.live_blocks() if live_only else range(len(self.blocks))
        for b in sorted(blocks):
            blk = self.blocks[b]
            if blk["cleanup"] or (blk.get("threaded") and blk.get("orig") in blocks):
                continue
            for i, s in enumerate(blk["stmts"]):
                yield b, i, s

    def loc(self, b, i=None):
        blk = self.blocks[b]
        if i is None or i < 0 or i >= len(blk["stmts"]):
            sp = blk["term"]["sp"]
            if sp["l0"] <= 1:
                for s in blk["stmts"]:
                    if s.get("sp") and s["sp"]["l0"] > 1:
                        sp = s["sp"]
        else:
            sp = blk["stmts"][i].get("sp") or blk["term"]["sp"]
        return "%s:%s" % (sp["file"], sp["l0"])


_INT_BITS = {"u8": 8, "u16": 16, "u32": 32, "u64": 64, "usize": 64}


def fold_bin(t):
    """Fold arithmetic on two scalar constants (unsigned 64-bit range assumed sufficient); the constant operand of a
    commutative operation goes to the right (as lower.canonical_operands does on the statements - a variable that becomes a
    constant in a restricted view is handled here)."""
    if t[0] == "bin" and t[1].replace("WithOverflow", "") in ("Add", "Mul", "BitAnd", "BitOr", "BitXor") and t[2][0] == "c" and t[3][0] != "c":
        t = (t[0], t[1], t[3], t[2]) + tuple(t[4:])
    if t[0] == "bin" and t[2][0] == "c" and t[3][0] == "c" and isinstance(t[2][1], int) and isinstance(t[3][1], int):
        a, b = t[2][1], t[3][1]
        op = t[1]
        if op == "Add":
            return ("c", a + b, None)
        if op == "Sub" and a >= b:
            return ("c", a - b, None)
        if op == "Mul":
            return ("c", a * b, None)
    return t


def callee_of(t):
    return strip_generics(t["callee"]) if t.get("callee") else None


def path_matches(path, name):
    """`name` matches `path` if equal or if path ends with '::' + name."""
    return path == name or path.endswith("::" + name)


def is_log_call(t):
    """Calls that belong to log/defmt/core::fmt plumbing (treated as epsilon)."""
    if t.get("callee_crate") in LOG_CRATES:
        return True
    c = t.get("callee") or ""
    if c.startswith("core::fmt::") or c.startswith("std::fmt::"):
        return True
    sp = t.get("sp", {})
    if sp.get("exp") and sp.get("mac") in ("trace", "debug", "warn", "info", "error", "log", "format_args"):
        return True
    return False


class Facts:
    def __init__(self, raw):
        self.raw = raw
        from .lower import lower_adaptors
        lower_adaptors(raw)                     # Option / Result adaptors with closure arguments -> explicit control flow
        allf = [Fn(b, self) for b in raw["bodies"]]
        # closures whose every use was inlined by the lowering pass are no longer functions of their own (their statements
        # are in the caller now); they stay reachable by path for term-level inlining
        self.consumed = [f for f in allf if f.raw.get("consumed")]
        self.fns = [f for f in allf if not f.raw.get("consumed")]
        self.by_npath = defaultdict(list)
        for f in self.fns:
            self.by_npath[f.npath].append(f)
        self.adts = {a["path"]: a for a in raw["adts"]}
        self.consts = {strip_generics(c["path"]): c for c in raw["consts"]}

    def fn(self, name, unique=True):
        """Find a function by normalised path suffix. Raises KeyError when missing/ambiguous."""
        hits = [f for f in self.fns if path_matches(f.npath, name) and f.kind != "Closure"]
        if not hits:
            raise KeyError("anchor missing: function %s" % name)
        if unique and len(hits) > 1:
            raise KeyError("anchor ambiguous: function %s -> %s" % (name, [h.npath for h in hits]))
        return hits[0]

    def fns_matching(self, name):
        return [f for f in self.fns if path_matches(f.npath, name)]

    def closures_of(self, fn):
        pre = fn.npath + "::{closure#"
        return [f for f in self.fns if f.kind == "Closure" and f.npath.startswith(pre)]

    def closure(self, npath):
        hits = [f for f in self.fns + self.consumed if f.npath == npath]
        if not hits:
            raise KeyError("anchor missing: closure %s" % npath)
        return hits[0]

    def const(self, name):
        hits = [c for p, c in self.consts.items() if path_matches(p, name)]
        if len(hits) != 1:
            raise KeyError("anchor missing/ambiguous: const %s (%d hits)" % (name, len(hits)))
        return int(hits[0]["val"])

    def variant_index(self, adt, variant):
        hits = [a for p, a in self.adts.items() if path_matches(p, adt)]
        if len(hits) != 1:
            raise KeyError("anchor missing/ambiguous: adt %s" % adt)
        for v in hits[0]["variants"]:
            if v["name"] == variant:
                return v["idx"]
        raise KeyError("anchor missing: variant %s::%s" % (adt, variant))

    def variants(self, adt):
        hits = [a for p, a in self.adts.items() if path_matches(p, adt)]
        if len(hits) != 1:
            raise KeyError("anchor missing/ambiguous: adt %s" % adt)
        return [v["name"] for v in hits[0]["variants"]]

    def callers_of(self, name):
        out = []
        for f in self.fns:
            for b, t in f.calls_to(name):
                out.append((f, b, t))
        return out


# ---------------------------------------------------------------------------------------
# term utilities


def tstr(t, depth=0):
    """Compact printable form of a term."""
    if depth > 12:
        return "…"
    k = t[0]
    if k == "c":
        return (t[2].split("::")[-1] + "=" if t[2] else "") + (hex(t[1]) if isinstance(t[1], int) and abs(t[1]) > 9 else str(t[1]))
    if k == "cdef":
        return t[1]
    if k == "fn":
        return t[1]
    if k == "arg":
        return t[2] or "arg%d" % t[1]
    if k == "var":
        return t[2] or "_%d" % t[1]
    if k == "place":
        s = tstr(t[1], depth + 1)
        for e in t[2]:
            if e == "*":
                s = "(*%s)" % s
            elif isinstance(e, tuple):
                if e[0] == "idx":
                    s = "%s[%s]" % (s, tstr(e[1], depth + 1))
                elif e[0] == "cidx":
                    s = "%s[%s]" % (s, e[1])
                else:
                    s = "%s[%s..%s]" % (s, e[1], e[2])
            elif e.startswith("as:"):
                s = "(%s as %s)" % (s, e[3:])
            else:
                s = "%s.%s" % (s, e)
        return s
    if k == "call":
        return "%s(%s)" % ((t[1] or "?").split("::")[-1] if t[1] else "?", ", ".join(tstr(a, depth + 1) for a in t[2]))
    if k == "bin" or k == "cmp":
        return "%s(%s, %s)" % (t[1], tstr(t[2], depth + 1), tstr(t[3], depth + 1))
    if k == "un":
        return "%s(%s)" % (t[1], tstr(t[2], depth + 1))
    if k == "cast":
        return "(%s as %s)" % (tstr(t[2], depth + 1), t[1])
    if k == "ref":
        return "&" + tstr(t[1], depth + 1)
    if k == "agg":
        nm = t[2] if t[2] else t[1]
        return "%s{%s}" % (nm.split("::")[-1] if nm else nm, ", ".join(tstr(a, depth + 1) for a in t[3]))
    if k == "discr":
        return "discr(%s)" % tstr(t[1], depth + 1)
    if k == "repeat":
        return "[%s; %s]" % (tstr(t[1], depth + 1), t[2])
    if k == "zst":
        return "()"
    return str(t[1]) if len(t) > 1 else k


def strip_refs(t):
    while t[0] == "ref" or (t[0] == "place" and t[2] == ("*",)):
        t = t[1]
    return t


def subterms(t):
    yield t
    k = t[0]
    if k in ("bin", "cmp"):
        yield from subterms(t[2])
        yield from subterms(t[3])
    elif k in ("un", "cast"):
        yield from subterms(t[2])
    elif k in ("ref", "discr", "repeat"):
        yield from subterms(t[1])
    elif k == "place":
        yield from subterms(t[1])
        for e in t[2]:
            if isinstance(e, tuple) and e[0] == "idx":
                yield from subterms(e[1])
    elif k == "call":
        for a in t[2]:
            yield from subterms(a)
    elif k == "agg":
        for a in t[3]:
            yield from subterms(a)
    elif k == "ovf":
        yield from subterms(t[1])


def contains(t, pred):
    return any(pred(s) for s in subterms(t))


# ---------------------------------------------------------------------------------------
# raw statement helpers


def rvalue_operands(rv):
    k = rv["k"]
    if k in ("Use", "Repeat", "Cast"):
        return [rv["op"]]
    if k == "BinaryOp":
        return [rv["l"], rv["r"]]
    if k == "UnaryOp":
        return [rv["x"]]
    if k == "Aggregate":
        return list(rv["ops"])
    return []


def rvalue_places(rv):
    """Places read (or borrowed) by an rvalue."""
    out = []
    if rv["k"] in ("Ref", "RawPtr", "Discriminant", "CopyForDeref"):
        out.append(rv["p"])
    for o in rvalue_operands(rv):
        if o.get("k") in ("copy", "move"):
            out.append(o["p"])
    return out


def term_places(t):
    """Places read by a terminator's operands."""
    out = []
    ops = []
    if t["k"] == "Call":
        ops = list(t["args"])
        if t.get("callee_op"):
            ops.append(t["callee_op"])
    elif t["k"] == "SwitchInt":
        ops = [t["discr"]]
    elif t["k"] == "Assert":
        ops = [t["cond"]] + list(t["ops"])
    elif t["k"] == "Drop":
        out.append(t["p"])
    for o in ops:
        if o.get("k") in ("copy", "move"):
            out.append(o["p"])
    return out


# ---------------------------------------------------------------------------------------
# term pattern matching


def tmatch(t, pat, env=None):
    """Structural match of term `t` against `pat`.
    Pattern language: '_' matches anything; '$x' captures (must be equal on re-use);
    ('call', name_suffix, [arg pats]) ; ('call', name_suffix) any args;
    ('place', base_pat, proj tuple) exact projection names ('*' deref, field names);
    ('c', value) constant value; ('c', value, def_suffix);
    ('bin', op, l, r); ('un', op, x); ('cast', x) (any type); ('ref', x); ('agg', name_suffix, [ops]);
    ('arg', name); ('var', name); ('any', p1, p2, ...) alternatives; ('deref*', p) strips refs/derefs.
    Returns env dict or None."""
    if env is None:
        env = {}
    if pat == "_":
        return env
    if isinstance(pat, str) and pat.startswith("$"):
        if pat in env:
            return env if env[pat] == t else None
        e2 = dict(env)
        e2[pat] = t
        return e2
    k = pat[0]
    if k == "any":
        for p in pat[1:]:
            r = tmatch(t, p, env)
            if r is not None:
                return r
        return None
    if k == "deref*":
        return tmatch(strip_refs(t), pat[1], env)
    if k == "cast":
        if t[0] != "cast":
            return None
        return tmatch(t[2], pat[1], env)
    if k == "cast?":
        while t[0] == "cast":
            t = t[2]
        return tmatch(t, pat[1], env)
    if t[0] != k:
        return None
    if k == "c":
        if pat[1] != "_" and t[1] != pat[1]:
            return None
        if len(pat) > 2 and not (t[2] and path_matches(t[2], pat[2])):
            return None
        return env
    if k == "arg" or k == "var":
        if isinstance(pat[1], int):          # by position (robust against renaming parameters / locals)
            return env if t[1] == pat[1] else None
        return env if (pat[1] == "_" or t[2] == pat[1]) else None
    if k == "call":
        if not (t[1] and (pat[1] == "_" or path_matches(t[1], pat[1]))):
            return None
        if len(pat) > 2 and pat[2] != "_":
            if len(pat[2]) != len(t[2]):
                return None
            for a, p in zip(t[2], pat[2]):
                env = tmatch(a, p, env)
                if env is None:
                    return None
        return env
    if k == "place":
        if len(pat) > 2 and tuple(pat[2]) != tuple(t[2]):
            return None
        return tmatch(t[1], pat[1], env)
    if k == "bin":
        if pat[1] != "_" and t[1] != pat[1]:
            return None
        env = tmatch(t[2], pat[2], env)
        if env is None:
            return None
        return tmatch(t[3], pat[3], env)
    if k == "un":
        if pat[1] != "_" and t[1] != pat[1]:
            return None
        return tmatch(t[2], pat[2], env)
    if k == "ref" or k == "discr":
        return tmatch(t[1], pat[1], env)
    if k == "agg":
        nm = t[2] or t[1]
        if pat[1] != "_" and not path_matches(nm, pat[1]):
            return None
        if len(pat) > 2:
            if len(pat[2]) != len(t[3]):
                return None
            for a, p in zip(t[3], pat[2]):
                env = tmatch(a, p, env)
                if env is None:
                    return None
        return env
    if k == "fn":
        return env if path_matches(t[1], pat[1]) else None
    return env if t == pat else None


def find_sub(t, pat):
    """First subterm of t matching pat -> env or None."""
    for s in subterms(t):
        r = tmatch(s, pat)
        if r is not None:
            return r
    return None


def flat_place(t):
    """(root term, projection names): nested places flattened, references and derefs dropped (they carry no information
    at the term level) - two spellings of one memory location compare equal"""
    t = strip_refs(t)
    if t[0] != "place":
        return t, ()
    root, names = flat_place(t[1])
    return root, tuple(names) + tuple(e for e in t[2] if e != "*")


def _rebase(base, rest):
    """base term followed by the projections `rest` (derefs of references cancel)"""
    rest = tuple(rest)
    while rest and rest[0] == "*" and base[0] == "ref":
        base, rest = base[1], rest[1:]
    if not rest:
        return base
    if base[0] == "place":
        return ("place", base[1], tuple(base[2]) + rest)
    return ("place", base, rest)


def inline_closure(F, clo, args):
    """Return term of the (single-expression) closure `clo` = ('agg','Closure',path,captures) applied to `args`, written
    over the caller's terms: captured variables and parameters are substituted; None when the body has several
    definitions of its result (branches) - callers then treat the call as opaque."""
    clo = strip_refs(clo)
    if not (clo[0] == "agg" and clo[1] == "Closure"):
        return None
    try:
        c = F.closure(clo[2])
    except KeyError:
        return None
    ds = c.defs().get(0, [])
    if len(ds) != 1 or ds[0][0] not in ("assign", "call"):
        return None
    body = c.term_of_rvalue(ds[0][3], ds[0][1]) if ds[0][0] == "assign" else c.call_term(ds[0][2], ds[0][1])
    caps = list(clo[3])

    def sub(t):
        if not isinstance(t, tuple) or not t:
            return t
        if t[0] == "arg":
            if t[1] == 1:
                return t
            return args[t[1] - 2] if t[1] - 2 < len(args) else t
        if t[0] == "place" and isinstance(t[1], tuple) and t[1] and t[1][0] == "arg":
            proj = list(t[2])
            if t[1][1] == 1:
                if proj and proj[0] == "*":
                    proj = proj[1:]
                if proj and isinstance(proj[0], str) and proj[0].isdigit() and int(proj[0]) < len(caps):
                    return _rebase(caps[int(proj[0])], [sub_proj(e) for e in proj[1:]])
                return t
            if t[1][1] - 2 < len(args):
                return _rebase(args[t[1][1] - 2], [sub_proj(e) for e in proj])
        if t[0] == "call" and len(t) == 4 and isinstance(t[3], int):
            t = t[:3] + (("at", c.npath, t[3]),)       # the call site lives in the closure's body, not in the caller's
        return tuple(sub(x) if isinstance(x, tuple) and not (x and x[0] == "at") else x for x in t)

    def sub_proj(e):
        return tuple(sub(x) if isinstance(x, tuple) else x for x in e) if isinstance(e, tuple) else e
    return sub(body)


_KNOWN = None


def _known_functions():
    global _KNOWN
    if _KNOWN is None:
        import json, os
        p = os.path.join(os.path.dirname(os.path.dirname(os.path.abspath(__file__))), "spec", "known_functions.json")
        _KNOWN = set(json.load(open(p))["functions"])
    return _KNOWN


def inline_fn_call(F, t):
    """t = ('call', path, args, site) of a crate function whose result is one expression of its parameters (a single
    definition of the return place, no loop): that expression over the caller's argument terms; None otherwise.  Used by
    formula rules to see through small private helpers (`fn first_block_of_cluster(&self, c) -> .. { (c.0 - 2) * per }`)."""
    if not (isinstance(t, tuple) and t and t[0] == "call" and t[1]):
        return None
    memo = F.__dict__.setdefault("_inline_memo", {})
    if t[1] not in memo:
        hits = [f for f in F.fns if f.npath == t[1] and f.kind != "Closure"]
        body = None
        # only functions the rules do not know by name: spec/known_functions.json lists the functions of the tree the rules
        # were written against (their vocabulary - accessors, codec entry points, cluster_to_block ..); a helper that a
        # later refactoring introduced is not in it and is looked through
        if len(hits) == 1 and t[1] not in _known_functions():
            c = hits[0]
            ds = c.defs().get(0, [])
            if len(ds) == 1 and ds[0][0] in ("assign", "call") and not c.loops() and len(c.live_blocks()) <= 12:
                body = (c, c.term_of_rvalue(ds[0][3], ds[0][1]) if ds[0][0] == "assign" else c.call_term(ds[0][2], ds[0][1]))
        memo[t[1]] = body
    ent = memo[t[1]]
    if ent is None:
        return None
    c, body = ent
    args = list(t[2])
    if len(args) != c.arg_count:
        return None

    def sub(x):
        if not isinstance(x, tuple) or not x:
            return x
        if x[0] == "arg":
            return args[x[1] - 1] if 1 <= x[1] <= len(args) else x
        if x[0] == "place" and isinstance(x[1], tuple) and x[1] and x[1][0] == "arg" and 1 <= x[1][1] <= len(args):
            return _rebase(args[x[1][1] - 1], [sub_proj(e) for e in x[2]])
        if x[0] == "var":
            return ("var", ("inl", t[1], x[1]), x[2] if len(x) > 2 else None)      # a callee local that did not resolve: keep it apart from the caller's
        if x[0] == "call" and len(x) == 4 and isinstance(x[3], int):
            x = x[:3] + (("at", c.npath, x[3]),)
        return tuple(sub(y) if isinstance(y, tuple) and not (y and y[0] == "at") else y for y in x)

    def sub_proj(e):
        return tuple(sub(y) if isinstance(y, tuple) else y for y in e) if isinstance(e, tuple) else e
    return sub(body)


def expand_local_calls(F, t, depth=0):
    """t with calls of single-expression crate functions replaced by their bodies (innermost first, bounded depth)."""
    if not isinstance(t, tuple) or not t or depth > 3:
        return t
    t = tuple(expand_local_calls(F, x, depth) if isinstance(x, tuple) and not (x and x[0] == "at") else x for x in t)
    if t[0] == "place" and len(t[2]) >= 2 and tuple(t[2][:2]) in (("as:Some", "0"), ("as:Ok", "0"), ("as:Continue", "0")):
        v = success_value(F, t)
        if v is not None:
            return expand_local_calls(F, v, depth + 1)
    if t[0] == "call":
        if t[1] and t[1].endswith(("ops::Fn::call", "ops::FnMut::call_mut", "ops::FnOnce::call_once", "function::Fn::call", "function::FnMut::call_mut", "function::FnOnce::call_once")) and len(t[2]) == 2:
            clo, tup = strip_refs(t[2][0]), strip_refs(t[2][1])
            if clo[0] == "agg" and clo[1] == "Closure" and tup[0] == "agg" and tup[1] == "Tuple":
                b = inline_closure(F, clo, list(tup[3]))
                if b is not None:
                    return expand_local_calls(F, b, depth + 1)
        b = inline_fn_call(F, t)
        if b is not None:
            return expand_local_calls(F, b, depth + 1)
    return t


def call_site_info(F, fn, site):
    """the Call terminator a call term's site id refers to: a block of fn, or ('at', function path, block) after inlining"""
    if isinstance(site, int):
        return fn.term(site)
    if isinstance(site, tuple) and site and site[0] == "at":
        for g in F.fns:
            if g.npath == site[1]:
                return g.term(site[2])
    return {}


_CHECKED = {"checked_add": "Add", "checked_sub": "Sub", "checked_mul": "Mul", "checked_div": "Div", "checked_rem": "Rem",
            "wrapping_add": "Add", "wrapping_sub": "Sub", "wrapping_mul": "Mul", "saturating_add": None, "saturating_sub": None}


def success_value(F, t, depth=0):
    """The value an Option / Result / ControlFlow expression carries *when it succeeds*, as plain arithmetic over the
    caller's terms: checked_add(a, b) -> a + b; ok_or / `?` / map_err keep it; and_then / map apply their closure to it; a
    helper of the crate the rules do not know by name, with one way to succeed, is looked through.  None when t is not of
    these shapes.  (That the operation *can* fail is a matter for the panic-freedom and refusal rules, not for formulas.)"""
    if depth > 8 or not isinstance(t, tuple) or not t:
        return None
    t = strip_refs(t)
    if t[0] == "place" and len(t[2]) >= 2 and tuple(t[2][:2]) in (("as:Some", "0"), ("as:Ok", "0"), ("as:Continue", "0")):
        v = success_value(F, t[1], depth + 1)
        if v is None:
            return None
        return _rebase(v, t[2][2:]) if t[2][2:] else v
    if t[0] == "agg" and t[2] and t[2].endswith(("Option::Some", "Result::Ok")) and len(t[3]) == 1:
        return t[3][0]
    if t[0] != "call" or not t[1]:
        return None
    nm = t[1].split("::")[-1]
    if nm in _CHECKED and _CHECKED[nm] and len(t[2]) == 2 and t[1].startswith("core::num"):
        return ("bin", _CHECKED[nm], t[2][0], t[2][1])
    if nm in ("ok_or", "ok_or_else", "map_err", "branch", "ok", "copied", "cloned") and t[2] and t[1].startswith("core::"):
        return success_value(F, t[2][0], depth + 1)
    if nm in ("try_from", "try_into") and len(t[2]) == 1 and t[1].startswith("core::convert"):
        # a checked integer conversion succeeds with the value itself
        return success_value(F, t[2][0], depth + 1) or t[2][0]
    if nm in ("and_then", "map") and len(t[2]) == 2 and t[1].startswith("core::"):
        inner = success_value(F, t[2][0], depth + 1)
        if inner is None:
            return None
        body = inline_closure(F, t[2][1], [inner])
        if body is None:
            return None
        return success_value(F, body, depth + 1) if nm == "and_then" else body
    # a crate helper outside the rules' vocabulary: exactly one non-failing definition of its result
    if t[1] not in _known_functions():
        hits = [f for f in F.fns if f.npath == t[1] and f.kind != "Closure"]
        if len(hits) == 1 and len(t[2]) == hits[0].arg_count and not hits[0].loops():
            c = hits[0]
            succ = []
            for d in c.defs().get(0, []):
                v = c.term_of_rvalue(d[3], d[1]) if d[0] == "assign" else c.call_term(d[2], d[1])
                v0 = strip_refs(v)
                if v0[0] == "agg" and v0[2] and v0[2].endswith(("Option::None", "Result::Err")):
                    continue
                if v0[0] == "call" and v0[1] and v0[1].endswith("FromResidual::from_residual"):
                    continue
                succ.append(v)
            if len(succ) == 1:
                args = list(t[2])

                def sub(x):
                    if not isinstance(x, tuple) or not x:
                        return x
                    if x[0] == "arg":
                        return args[x[1] - 1] if 1 <= x[1] <= len(args) else x
                    if x[0] == "place" and isinstance(x[1], tuple) and x[1] and x[1][0] == "arg" and 1 <= x[1][1] <= len(args):
                        return _rebase(args[x[1][1] - 1], [tuple(sub(y) if isinstance(y, tuple) else y for y in e) if isinstance(e, tuple) else e for e in x[2]])
                    if x[0] == "call" and len(x) == 4 and isinstance(x[3], int):
                        x = x[:3] + (("at", c.npath, x[3]),)
                    return tuple(sub(y) if isinstance(y, tuple) and not (y and y[0] == "at") else y for y in x)
                return success_value(F, sub(succ[0]), depth + 1) or sub(succ[0])
    return None
